//! Trait-level harness: every `PolynomialCommitment` implementation of the crate driven through
//! the public trait API (honest transcripts, statement mutations, batches, linear combinations,
//! histories).  These runs compare the implementation with the *property expectation*
//! (must-accept / must-refuse / equal decisions); model-backed runs live in the per-scheme modules.
use crate::common::*;
use crate::Ctx;
use ark_bls12_381::{Bls12_381, Fr, G1Affine};
use ark_crypto_primitives::{
    crh::{sha256::Sha256, CRHScheme, TwoToOneCRHScheme},
    merkle_tree::{ByteDigestConverter, Config},
};
use ark_ff::{One, PrimeField, UniformRand, Zero};
use ark_poly_commit::PCCommitmentState as _;
use ark_poly::{
    multivariate::{SparsePolynomial, SparseTerm, Term},
    univariate::DensePolynomial,
    DenseMVPolynomial, DenseMultilinearExtension, DenseUVPolynomial, MultilinearExtension,
    Polynomial, SparseMultilinearExtension,
};
use ark_poly_commit::{
    hyrax::HyraxPC,
    ipa_pc::InnerProductArgPC,
    linear_codes::{LinearCodePCS, MultilinearBrakedown, MultilinearLigero, UnivariateLigero},
    marlin_pc::MarlinKZG10,
    marlin_pst13_pc::MarlinPST13,
    sonic_pc::SonicKZG10,
    Error, Evaluations, LabeledCommitment, LabeledPolynomial, LinearCombination,
    PolynomialCommitment, QuerySet,
};
use ark_serialize::CanonicalSerialize;
use ark_std::rand::RngCore;
use blake2::Blake2s256;
use std::borrow::Borrow;
use std::marker::PhantomData;

pub type UniPoly = DensePolynomial<Fr>;

// ------------------------------------------------------------------------------------------------
// hashers for the linear-code schemes (same as the crate's tests / bench templates)
// ------------------------------------------------------------------------------------------------
pub struct LeafIdentityHasher;
impl CRHScheme for LeafIdentityHasher {
    type Input = Vec<u8>;
    type Output = Vec<u8>;
    type Parameters = ();
    fn setup<R: RngCore>(_: &mut R) -> Result<Self::Parameters, ark_crypto_primitives::Error> {
        Ok(())
    }
    fn evaluate<T: Borrow<Self::Input>>(
        _: &Self::Parameters,
        input: T,
    ) -> Result<Self::Output, ark_crypto_primitives::Error> {
        Ok(input.borrow().to_vec())
    }
}
pub struct FieldToBytesColHasher<F: PrimeField, D: digest::Digest> {
    _p: PhantomData<(F, D)>,
}
impl<F: PrimeField, D: digest::Digest> CRHScheme for FieldToBytesColHasher<F, D> {
    type Input = Vec<F>;
    type Output = Vec<u8>;
    type Parameters = ();
    fn setup<R: RngCore>(_: &mut R) -> Result<Self::Parameters, ark_crypto_primitives::Error> {
        Ok(())
    }
    fn evaluate<T: Borrow<Self::Input>>(
        _: &Self::Parameters,
        input: T,
    ) -> Result<Self::Output, ark_crypto_primitives::Error> {
        let mut dig = D::new();
        let mut buf = vec![];
        input.borrow().serialize_compressed(&mut buf).unwrap();
        dig.update(buf);
        Ok(dig.finalize().to_vec())
    }
}
pub struct MTConfig;
impl Config for MTConfig {
    type Leaf = Vec<u8>;
    type LeafDigest = <LeafIdentityHasher as CRHScheme>::Output;
    type LeafInnerDigestConverter = ByteDigestConverter<Self::LeafDigest>;
    type InnerDigest = <Sha256 as TwoToOneCRHScheme>::Output;
    type LeafHash = LeafIdentityHasher;
    type TwoToOneHash = Sha256;
}
pub type ColH = FieldToBytesColHasher<Fr, Blake2s256>;

pub type MarlinPC = MarlinKZG10<Bls12_381, UniPoly>;
pub type SonicPC = SonicKZG10<Bls12_381, UniPoly>;
pub type IpaPC = InnerProductArgPC<G1Affine, Blake2s256, UniPoly>;
pub type MvPoly = SparsePolynomial<Fr, SparseTerm>;
pub type Pst13PC = MarlinPST13<Bls12_381, MvPoly>;
pub type DenseML = DenseMultilinearExtension<Fr>;
pub type SparseML = SparseMultilinearExtension<Fr>;
pub type HyraxScheme = HyraxPC<G1Affine, DenseML>;
pub type UniLigeroPC =
    LinearCodePCS<UnivariateLigero<Fr, MTConfig, UniPoly, ColH>, Fr, UniPoly, MTConfig, ColH>;
pub type MlLigeroPC =
    LinearCodePCS<MultilinearLigero<Fr, MTConfig, SparseML, ColH>, Fr, SparseML, MTConfig, ColH>;
pub type BrakedownPC =
    LinearCodePCS<MultilinearBrakedown<Fr, MTConfig, SparseML, ColH>, Fr, SparseML, MTConfig, ColH>;

#[derive(Clone, Debug)]
pub struct Sizes {
    pub max_degree: usize,
    pub supported: usize,
    pub num_vars: Option<usize>,
}

pub trait Scheme: 'static {
    type P: Polynomial<Fr> + Clone;
    type PC: PolynomialCommitment<Fr, Self::P, Error = Error>;
    const NAME: &'static str;
    const BOUNDS: bool;
    const HIDING: bool;
    /// hiding bound 0 is refused (PST13)
    const HIDING_MIN: usize = 0;
    /// degree bounds must be announced to `trim` (Marlin, Sonic); IPA accepts any bound up to the
    /// supported degree
    const BOUNDS_FROM_KEY: bool = true;
    /// `setup(0, ..)` is refused with `DegreeIsZero` (the KZG-based setups); IPA's transparent
    /// setup answers with a one-element key that does support constants
    const SETUP_REFUSES_ZERO: bool = false;
    /// the degree the committer key really supports (IPA rounds up to 2^k - 1)
    fn true_supported(ck: &<Self::PC as PolynomialCommitment<Fr, Self::P>>::CommitterKey, s: &Sizes) -> usize {
        let _ = ck;
        s.supported
    }
    fn sizes(rng: &mut Rng, thorough: bool) -> Sizes;
    fn rand_poly(rng: &mut Rng, s: &Sizes, degree: usize) -> Self::P;
    /// zero / constant polynomials in the scheme's polynomial type (None = not expressible)
    fn special_poly(rng: &mut Rng, s: &Sizes, kind: usize) -> Option<(Self::P, &'static str)>;
    fn rand_point(rng: &mut Rng, s: &Sizes) -> <Self::P as Polynomial<Fr>>::Point;
    fn is_constant(p: &Self::P) -> bool;
    /// univariate: X^k·q of the given degree with `k ≥ 1` zero low-order coefficients (None elsewhere)
    fn low_zero_poly(_rng: &mut Rng, _degree: usize) -> Option<Self::P> {
        None
    }
    /// multivariate: does the polynomial mention a variable with index >= nv?
    fn uses_var_at_least(_p: &Self::P, _nv: usize) -> bool {
        true
    }
}

/// a multivariate point: mostly random coordinates; one in eight coordinates is 0 or 1, and one point in eight is
/// a vertex of the hypercube (tensors of such points have zero entries scattered through them)
pub fn mv_point(rng: &mut Rng, nv: usize) -> Vec<Fr> {
    let vertex = range(rng, 0, 7) == 0;
    (0..nv)
        .map(|_| {
            if vertex || range(rng, 0, 7) == 0 {
                if coin(rng) { Fr::one() } else { Fr::zero() }
            } else {
                Fr::rand(rng)
            }
        })
        .collect()
}

fn lp_poly_ref<P: Polynomial<Fr>>(lp: &LabeledPolynomial<Fr, P>) -> &P {
    lp.polynomial()
}

type Pt<S> = <<S as Scheme>::P as Polynomial<Fr>>::Point;
type Comm<S> = <<S as Scheme>::PC as PolynomialCommitment<Fr, <S as Scheme>::P>>::Commitment;
type State<S> = <<S as Scheme>::PC as PolynomialCommitment<Fr, <S as Scheme>::P>>::CommitmentState;
type CK<S> = <<S as Scheme>::PC as PolynomialCommitment<Fr, <S as Scheme>::P>>::CommitterKey;
type VK<S> = <<S as Scheme>::PC as PolynomialCommitment<Fr, <S as Scheme>::P>>::VerifierKey;
type PP<S> = <<S as Scheme>::PC as PolynomialCommitment<Fr, <S as Scheme>::P>>::UniversalParams;
type BProof<S> = <<S as Scheme>::PC as PolynomialCommitment<Fr, <S as Scheme>::P>>::BatchProof;
type SProof<S> = <<S as Scheme>::PC as PolynomialCommitment<Fr, <S as Scheme>::P>>::Proof;

fn uni_special(rng: &mut Rng, kind: usize) -> Option<(UniPoly, &'static str)> {
    match kind {
        0 => Some((UniPoly::from_coefficients_vec(vec![]), "zero")),
        _ => Some((UniPoly::from_coefficients_vec(vec![Fr::rand(rng)]), "constant")),
    }
}

fn uni_low_zero(rng: &mut Rng, degree: usize) -> Option<UniPoly> {
    if degree == 0 {
        return None;
    }
    let mut p = UniPoly::rand(degree, rng);
    let k = range(rng, 1, degree);
    for c in p.coeffs.iter_mut().take(k) {
        *c = Fr::from(0u64);
    }
    Some(p)
}

pub struct Marlin;
impl Scheme for Marlin {
    type P = UniPoly;
    fn low_zero_poly(rng: &mut Rng, degree: usize) -> Option<UniPoly> {
        uni_low_zero(rng, degree)
    }
    type PC = MarlinPC;
    const NAME: &'static str = "marlin";
    const BOUNDS: bool = true;
    const HIDING: bool = true;
    const SETUP_REFUSES_ZERO: bool = true;
    fn sizes(rng: &mut Rng, thorough: bool) -> Sizes {
        let max_degree = range(rng, 2, if thorough { 64 } else { 24 });
        Sizes { max_degree, supported: range(rng, 1, max_degree), num_vars: None }
    }
    fn rand_poly(rng: &mut Rng, _: &Sizes, degree: usize) -> UniPoly {
        UniPoly::rand(degree, rng)
    }
    fn special_poly(rng: &mut Rng, _: &Sizes, kind: usize) -> Option<(UniPoly, &'static str)> {
        uni_special(rng, kind)
    }
    fn rand_point(rng: &mut Rng, _: &Sizes) -> Fr {
        Fr::rand(rng)
    }
    fn is_constant(p: &UniPoly) -> bool {
        p.coeffs.len() <= 1
    }
}
pub struct Sonic;
impl Scheme for Sonic {
    type P = UniPoly;
    fn low_zero_poly(rng: &mut Rng, degree: usize) -> Option<UniPoly> {
        uni_low_zero(rng, degree)
    }
    type PC = SonicPC;
    const NAME: &'static str = "sonic";
    const BOUNDS: bool = true;
    const HIDING: bool = true;
    const SETUP_REFUSES_ZERO: bool = true;
    fn sizes(rng: &mut Rng, thorough: bool) -> Sizes {
        Marlin::sizes(rng, thorough)
    }
    fn rand_poly(rng: &mut Rng, _: &Sizes, degree: usize) -> UniPoly {
        UniPoly::rand(degree, rng)
    }
    fn special_poly(rng: &mut Rng, _: &Sizes, kind: usize) -> Option<(UniPoly, &'static str)> {
        uni_special(rng, kind)
    }
    fn rand_point(rng: &mut Rng, _: &Sizes) -> Fr {
        Fr::rand(rng)
    }
    fn is_constant(p: &UniPoly) -> bool {
        p.coeffs.len() <= 1
    }
}
pub struct Ipa;
impl Scheme for Ipa {
    type P = UniPoly;
    fn low_zero_poly(rng: &mut Rng, degree: usize) -> Option<UniPoly> {
        uni_low_zero(rng, degree)
    }
    type PC = IpaPC;
    const NAME: &'static str = "ipa";
    const BOUNDS: bool = true;
    const HIDING: bool = true;
    const BOUNDS_FROM_KEY: bool = false;
    fn true_supported(ck: &<IpaPC as PolynomialCommitment<Fr, UniPoly>>::CommitterKey, _: &Sizes) -> usize {
        use ark_poly_commit::PCCommitterKey;
        ck.supported_degree()
    }
    fn sizes(rng: &mut Rng, thorough: bool) -> Sizes {
        let max_degree = range(rng, 2, if thorough { 64 } else { 20 });
        Sizes { max_degree, supported: range(rng, 1, max_degree), num_vars: None }
    }
    fn rand_poly(rng: &mut Rng, _: &Sizes, degree: usize) -> UniPoly {
        UniPoly::rand(degree, rng)
    }
    fn special_poly(rng: &mut Rng, _: &Sizes, kind: usize) -> Option<(UniPoly, &'static str)> {
        uni_special(rng, kind)
    }
    fn rand_point(rng: &mut Rng, _: &Sizes) -> Fr {
        Fr::rand(rng)
    }
    fn is_constant(p: &UniPoly) -> bool {
        p.coeffs.len() <= 1
    }
}
pub struct Pst13;
impl Scheme for Pst13 {
    type P = MvPoly;
    type PC = Pst13PC;
    const NAME: &'static str = "pst13";
    const BOUNDS: bool = false;
    const HIDING: bool = true;
    const HIDING_MIN: usize = 1;
    fn sizes(rng: &mut Rng, thorough: bool) -> Sizes {
        let nv = range(rng, 1, if thorough { 5 } else { 3 });
        let max_degree = range(rng, 2, if thorough { 6 } else { 4 });
        Sizes { max_degree, supported: range(rng, 1, max_degree), num_vars: Some(nv) }
    }
    fn rand_poly(rng: &mut Rng, s: &Sizes, degree: usize) -> MvPoly {
        let nv = s.num_vars.unwrap();
        if coin(rng) {
            MvPoly::rand(degree, nv, rng)
        } else {
            // random sparse polynomial with genuinely mixed monomials of total degree <= degree
            let nterms = range(rng, 1, 6);
            let mut terms = vec![];
            for _ in 0..nterms {
                let mut left = range(rng, 0, degree);
                let mut t = vec![];
                for v in 0..nv {
                    if left == 0 {
                        break;
                    }
                    let e = range(rng, 0, left);
                    if e > 0 {
                        t.push((v, e));
                        left -= e;
                    }
                }
                terms.push((Fr::rand(rng), SparseTerm::new(t)));
            }
            MvPoly::from_coefficients_vec(nv, terms)
        }
    }
    fn special_poly(rng: &mut Rng, s: &Sizes, kind: usize) -> Option<(MvPoly, &'static str)> {
        let nv = s.num_vars.unwrap();
        match kind {
            0 => Some((MvPoly::from_coefficients_vec(nv, vec![]), "zero")),
            _ => Some((
                MvPoly::from_coefficients_vec(nv, vec![(Fr::rand(rng), SparseTerm::new(vec![]))]),
                "constant",
            )),
        }
    }
    fn rand_point(rng: &mut Rng, s: &Sizes) -> Vec<Fr> {
        mv_point(rng, s.num_vars.unwrap())
    }
    fn is_constant(p: &MvPoly) -> bool {
        p.terms().iter().all(|(c, t)| c.is_zero() || t.is_constant())
    }
    fn uses_var_at_least(p: &MvPoly, nv: usize) -> bool {
        p.terms().iter().any(|(_, t)| t.vars().iter().any(|v| *v >= nv))
    }
}
pub struct Hyrax;
impl Scheme for Hyrax {
    type P = DenseML;
    type PC = HyraxScheme;
    const NAME: &'static str = "hyrax";
    const BOUNDS: bool = false;
    const HIDING: bool = false; // hiding is unconditional and internal; bounds are ignored
    fn sizes(rng: &mut Rng, thorough: bool) -> Sizes {
        let nv = 2 * range(rng, 1, if thorough { 4 } else { 3 });
        Sizes { max_degree: 1, supported: 1, num_vars: Some(nv) }
    }
    fn rand_poly(rng: &mut Rng, s: &Sizes, _: usize) -> DenseML {
        DenseML::rand(s.num_vars.unwrap(), rng)
    }
    fn special_poly(rng: &mut Rng, s: &Sizes, kind: usize) -> Option<(DenseML, &'static str)> {
        let nv = s.num_vars.unwrap();
        match kind {
            0 => Some((DenseML::from_evaluations_vec(nv, vec![Fr::zero(); 1 << nv]), "zero")),
            _ => {
                let c = Fr::rand(rng);
                Some((DenseML::from_evaluations_vec(nv, vec![c; 1 << nv]), "constant"))
            }
        }
    }
    fn rand_point(rng: &mut Rng, s: &Sizes) -> Vec<Fr> {
        mv_point(rng, s.num_vars.unwrap())
    }
    fn is_constant(p: &DenseML) -> bool {
        p.evaluations.iter().all(|e| *e == p.evaluations[0])
    }
}
pub struct UniLigero;
impl Scheme for UniLigero {
    type P = UniPoly;
    type PC = UniLigeroPC;
    const NAME: &'static str = "uni-ligero";
    const BOUNDS: bool = false;
    const HIDING: bool = false;
    fn sizes(rng: &mut Rng, thorough: bool) -> Sizes {
        let max_degree = range(rng, 2, if thorough { 300 } else { 60 });
        Sizes { max_degree, supported: max_degree, num_vars: None }
    }
    fn rand_poly(rng: &mut Rng, _: &Sizes, degree: usize) -> UniPoly {
        UniPoly::rand(degree, rng)
    }
    fn special_poly(rng: &mut Rng, _: &Sizes, kind: usize) -> Option<(UniPoly, &'static str)> {
        match kind {
            0 => Some((UniPoly::from_coefficients_vec(vec![]), "zero")),
            _ => Some((UniPoly::from_coefficients_vec(vec![Fr::rand(rng)]), "constant")),
        }
    }
    fn rand_point(rng: &mut Rng, _: &Sizes) -> Fr {
        Fr::rand(rng)
    }
    fn is_constant(p: &UniPoly) -> bool {
        p.coeffs.len() <= 1
    }
}
fn sparse_ml_special(rng: &mut Rng, s: &Sizes, kind: usize) -> Option<(SparseML, &'static str)> {
    let nv = s.num_vars.unwrap();
    match kind {
        0 => Some((SparseML::from_evaluations(nv, &Vec::<(usize, Fr)>::new()), "zero")),
        _ => {
            let c = Fr::rand(rng);
            let evs: Vec<(usize, Fr)> = (0..(1usize << nv)).map(|i| (i, c)).collect();
            Some((SparseML::from_evaluations(nv, &evs), "constant"))
        }
    }
}
fn sparse_ml_constant(p: &SparseML) -> bool {
    let d = p.to_dense_multilinear_extension();
    d.evaluations.iter().all(|e| *e == d.evaluations[0])
}
pub struct MlLigero;
impl Scheme for MlLigero {
    type P = SparseML;
    type PC = MlLigeroPC;
    const NAME: &'static str = "ml-ligero";
    const BOUNDS: bool = false;
    const HIDING: bool = false;
    fn sizes(rng: &mut Rng, thorough: bool) -> Sizes {
        let nv = range(rng, 2, if thorough { 9 } else { 6 });
        Sizes { max_degree: 1, supported: 1, num_vars: Some(nv) }
    }
    fn rand_poly(rng: &mut Rng, s: &Sizes, _: usize) -> SparseML {
        SparseML::rand(s.num_vars.unwrap(), rng)
    }
    fn special_poly(rng: &mut Rng, s: &Sizes, kind: usize) -> Option<(SparseML, &'static str)> {
        sparse_ml_special(rng, s, kind)
    }
    fn rand_point(rng: &mut Rng, s: &Sizes) -> Vec<Fr> {
        mv_point(rng, s.num_vars.unwrap())
    }
    fn is_constant(p: &SparseML) -> bool {
        sparse_ml_constant(p)
    }
}
pub struct Brakedown;
impl Scheme for Brakedown {
    type P = SparseML;
    type PC = BrakedownPC;
    const NAME: &'static str = "brakedown";
    const BOUNDS: bool = false;
    const HIDING: bool = false;
    fn sizes(rng: &mut Rng, thorough: bool) -> Sizes {
        let nv = range(rng, 3, if thorough { 9 } else { 6 });
        Sizes { max_degree: 1, supported: 1, num_vars: Some(nv) }
    }
    fn rand_poly(rng: &mut Rng, s: &Sizes, _: usize) -> SparseML {
        SparseML::rand(s.num_vars.unwrap(), rng)
    }
    fn special_poly(rng: &mut Rng, s: &Sizes, kind: usize) -> Option<(SparseML, &'static str)> {
        sparse_ml_special(rng, s, kind)
    }
    fn rand_point(rng: &mut Rng, s: &Sizes) -> Vec<Fr> {
        mv_point(rng, s.num_vars.unwrap())
    }
    fn is_constant(p: &SparseML) -> bool {
        sparse_ml_constant(p)
    }
}

// ------------------------------------------------------------------------------------------------
// instances
// ------------------------------------------------------------------------------------------------

pub struct Instance<S: Scheme> {
    pub sizes: Sizes,
    pub pp: PP<S>,
    pub ck: CK<S>,
    pub vk: VK<S>,
    pub polys: Vec<LabeledPolynomial<Fr, S::P>>,
    pub kinds: Vec<&'static str>,
    pub comms: Vec<LabeledCommitment<Comm<S>>>,
    pub states: Vec<State<S>>,
    pub bounds: Option<Vec<usize>>,
    /// the hiding bound the keys were trimmed for
    pub shb: usize,
}

impl<S: Scheme> Instance<S> {
    pub fn desc(&self) -> String {
        format!(
            "{} D={} s={} nv={:?} polys=[{}]",
            S::NAME,
            self.sizes.max_degree,
            self.sizes.supported,
            self.sizes.num_vars,
            self.polys
                .iter()
                .zip(&self.kinds)
                .map(|(p, k)| format!(
                    "{}:{}:deg{}:b{:?}:h{:?}",
                    p.label(),
                    k,
                    p.degree(),
                    p.degree_bound(),
                    p.hiding_bound()
                ))
                .collect::<Vec<_>>()
                .join(" ")
        )
    }
}

/// Build keys, `npoly` labelled polynomials (structured kinds) and their commitments.
pub fn instance<S: Scheme>(rng: &mut Rng, thorough: bool, npoly: usize) -> Result<Instance<S>, String> {
    let sizes = S::sizes(rng, thorough);
    instance_sized::<S>(rng, sizes, npoly)
}

/// keys trimmed to the FULL degree of the parameters (`supported == max_degree`)
pub fn instance_full<S: Scheme>(rng: &mut Rng, thorough: bool, npoly: usize) -> Result<Instance<S>, String> {
    let mut sizes = S::sizes(rng, thorough);
    sizes.supported = sizes.max_degree;
    instance_sized::<S>(rng, sizes, npoly)
}

pub fn instance_sized<S: Scheme>(rng: &mut Rng, sizes: Sizes, npoly: usize) -> Result<Instance<S>, String> {
    let pp = S::PC::setup(sizes.max_degree, sizes.num_vars, rng).map_err(|e| format!("setup: {:?}", e))?;
    let mut polys = vec![];
    let mut kinds = vec![];
    let mut bounds: Vec<usize> = vec![];
    for i in 0..npoly {
        let label = format!("p{}", i);
        let pick = range(rng, 0, 9);
        let (poly, kind): (S::P, &'static str) = if pick < 2 {
            match S::special_poly(rng, &sizes, pick) {
                Some(x) => x,
                None => {
                    let d = range(rng, 1, sizes.supported);
                    (S::rand_poly(rng, &sizes, d), "dense")
                }
            }
        } else if pick == 2 {
            (S::rand_poly(rng, &sizes, sizes.supported), "max-degree")
        } else {
            let d = range(rng, 1, sizes.supported);
            (S::rand_poly(rng, &sizes, d), "dense")
        };
        let deg = poly.degree();
        let bound = if S::BOUNDS && coin(rng) {
            let b = range(rng, deg.max(1), sizes.supported);
            bounds.push(b);
            Some(b)
        } else {
            None
        };
        let hiding = if S::HIDING && coin(rng) {
            let hi = bound.unwrap_or(sizes.supported).min(sizes.supported).max(1);
            Some(range(rng, S::HIDING_MIN.max(1).min(hi), hi))
        } else {
            None
        };
        polys.push(LabeledPolynomial::new(label, poly, bound, hiding));
        kinds.push(kind);
    }
    let bounds_opt = if S::BOUNDS && (!bounds.is_empty() || coin(rng)) { Some(bounds) } else { None };
    // the hiding bound the keys are trimmed for is independent of the supported degree: half of the instances
    // use some other admissible value (at least what the polynomials need, at most the parameters' degree)
    let need_h = polys.iter().filter_map(|p| p.hiding_bound()).max().unwrap_or(0).max(1);
    let shb = if (S::NAME == "marlin" || S::NAME == "sonic" || S::NAME == "pst13") && coin(rng) && need_h <= sizes.max_degree {
        range(rng, need_h, sizes.max_degree)
    } else {
        sizes.supported
    };
    let (ck, vk) = S::PC::trim(&pp, sizes.supported, shb, bounds_opt.as_deref())
        .map_err(|e| format!("trim: {:?}", e))?;
    let (comms, states) = S::PC::commit(&ck, &polys, Some(rng)).map_err(|e| format!("commit: {:?}", e))?;
    Ok(Instance { sizes, pp, ck, vk, polys, kinds, comms, states, bounds: bounds_opt, shb })
}

#[derive(Clone, Debug, PartialEq)]
pub enum Outcome {
    Accept,
    Reject,
    Refuse(String),
}
impl Outcome {
    pub fn accepted(&self) -> bool {
        matches!(self, Outcome::Accept)
    }
    pub fn from(r: Result<Result<bool, Error>, String>) -> Outcome {
        match r {
            Ok(Ok(true)) => Outcome::Accept,
            Ok(Ok(false)) => Outcome::Reject,
            Ok(Err(e)) => Outcome::Refuse(err_kind(&e)),
            Err(a) => Outcome::Refuse(a),
        }
    }
}

/// A query set with `nlabels` point labels; some labels may share a point value.
pub fn query_set<S: Scheme>(
    rng: &mut Rng,
    inst: &Instance<S>,
    nlabels: usize,
    share_points: bool,
) -> (QuerySet<Pt<S>>, Evaluations<Pt<S>, Fr>)
where
    Pt<S>: Clone + Ord + std::fmt::Debug,
{
    let mut qs = QuerySet::new();
    let mut ev = Evaluations::new();
    let mut points: Vec<Pt<S>> = vec![];
    for l in 0..nlabels {
        let pt = if share_points && l > 0 && coin(rng) {
            points[range(rng, 0, points.len() - 1)].clone()
        } else {
            S::rand_point(rng, &inst.sizes)
        };
        points.push(pt.clone());
        let plabel = format!("pt{}", l);
        let mut any = false;
        for (i, p) in inst.polys.iter().enumerate() {
            if coin(rng) || (!any && i + 1 == inst.polys.len()) {
                any = true;
                qs.insert((p.label().clone(), (plabel.clone(), pt.clone())));
                ev.insert((p.label().clone(), pt.clone()), p.evaluate(&pt));
            }
        }
    }
    (qs, ev)
}

pub fn fresh_sponge() -> LogSponge {
    LogSponge::fresh()
}

pub fn batch_open<S: Scheme>(
    inst: &Instance<S>,
    qs: &QuerySet<Pt<S>>,
    sponge: &mut LogSponge,
    rng: &mut Rng,
) -> Result<BProof<S>, String>
where
    Pt<S>: Clone + Ord,
{
    match guarded(|| {
        S::PC::batch_open(&inst.ck, &inst.polys, &inst.comms, qs, sponge, &inst.states, Some(rng))
    }) {
        Ok(Ok(p)) => Ok(p),
        Ok(Err(e)) => Err(err_kind(&e)),
        Err(a) => Err(a),
    }
}

pub fn batch_check<S: Scheme>(
    inst: &Instance<S>,
    comms: &[LabeledCommitment<Comm<S>>],
    qs: &QuerySet<Pt<S>>,
    ev: &Evaluations<Pt<S>, Fr>,
    proof: &BProof<S>,
    sponge: &mut LogSponge,
    rng: &mut Rng,
) -> Outcome
where
    Pt<S>: Clone + Ord,
{
    Outcome::from(guarded(|| S::PC::batch_check(&inst.vk, comms, qs, ev, proof, sponge, rng)))
}

/// group a query set as the library does (by point label, sorted; polynomial labels sorted)
pub fn group<T: Clone + Ord>(qs: &QuerySet<T>) -> Vec<(String, T, Vec<String>)> {
    let mut m: std::collections::BTreeMap<String, (T, std::collections::BTreeSet<String>)> =
        std::collections::BTreeMap::new();
    for (label, (pl, pt)) in qs.iter() {
        m.entry(pl.clone())
            .or_insert((pt.clone(), std::collections::BTreeSet::new()))
            .1
            .insert(label.clone());
    }
    m.into_iter().map(|(k, (pt, ls))| (k, pt, ls.into_iter().collect())).collect()
}

/// individual `check` calls in the library's grouping order on one sponge: the reference for C05
pub fn individual_checks<S: Scheme>(
    inst: &Instance<S>,
    comms: &[LabeledCommitment<Comm<S>>],
    qs: &QuerySet<Pt<S>>,
    ev: &Evaluations<Pt<S>, Fr>,
    proofs: &[SProof<S>],
    sponge: &mut LogSponge,
    rng: &mut Rng,
) -> Vec<Outcome>
where
    Pt<S>: Clone + Ord,
{
    let mut out = vec![];
    for ((_, pt, labels), proof) in group(qs).into_iter().zip(proofs.iter()) {
        let cs: Vec<&LabeledCommitment<Comm<S>>> = labels
            .iter()
            .filter_map(|l| comms.iter().find(|c| c.label() == l))
            .collect();
        let vs: Vec<Fr> = labels
            .iter()
            .filter_map(|l| ev.get(&(l.clone(), pt.clone())).cloned())
            .collect();
        if cs.len() != labels.len() || vs.len() != labels.len() {
            out.push(Outcome::Refuse("missing".into()));
            continue;
        }
        let o = Outcome::from(guarded(|| {
            S::PC::check(&inst.vk, cs, &pt, vs, proof, sponge, Some(rng))
        }));
        out.push(o);
    }
    out
}

fn shuffle<T>(rng: &mut Rng, v: &mut Vec<T>) {
    for i in (1..v.len()).rev() {
        let j = range(rng, 0, i);
        v.swap(i, j);
    }
}

pub fn fail_replay<S: Scheme>(inst: &Instance<S>, id: &str, seed: u64, extra: &str) -> String {
    format!(
        "# scheme: {}\n# case: {}\n# seed: {}\n# instance: {}\n# {}\n# rerun: .build/cargo/debug/pcv-harness {} --seed {} --only {}\n",
        S::NAME,
        id,
        seed,
        inst.desc(),
        extra,
        id.split('/').next().unwrap_or(""),
        seed,
        id
    )
}

// ------------------------------------------------------------------------------------------------
// C01 at trait level: honest batches accepted; permutation invariance
// ------------------------------------------------------------------------------------------------
pub fn c01<S: Scheme>(ctx: &mut Ctx, n: usize)
where
    Pt<S>: Clone + Ord + std::fmt::Debug,
    SProof<S>: Clone,
    Comm<S>: Clone,
    State<S>: Clone,
{
    hiding_above_degree::<S>(ctx);
    for i in 0..n {
        let id = format!("C01/{}/{}", S::NAME, i);
        if !ctx.selected(&id) {
            continue;
        }
        let mut rng = rng_for(ctx.seed, &format!("C01/{}", S::NAME), i as u64);
        let npoly = range(&mut rng, 1, 4);
        let mut inst = match guarded(|| instance::<S>(&mut rng, ctx.thorough, npoly)) {
            Ok(Ok(x)) => x,
            Ok(Err(e)) | Err(e) => {
                ctx.rep.expect_fail(
                    &id,
                    &format!("{}/in-domain-setup-refused", S::NAME),
                    &format!("setup/trim/commit refused or aborted an in-domain request: {}", e),
                    format!("# scheme: {}\n# case: {}\n# seed: {}\n# {}\n", S::NAME, id, ctx.seed, e),
                );
                ctx.rep.case(&format!("{} setup failed", S::NAME), None);
                continue;
            }
        };
        let nlabels = range(&mut rng, 1, 3);
        let (qs, ev) = query_set::<S>(&mut rng, &inst, nlabels, true);
        let mut sp = fresh_sponge();
        sp.absorb_seed(i as u64);
        let mut vs = sp.clone();
        let proof = match batch_open::<S>(&inst, &qs, &mut sp, &mut rng) {
            Ok(p) => p,
            Err(e) => {
                ctx.rep.expect_fail(
                    &id,
                    &format!("{}/honest-open-refused", S::NAME),
                    &format!("batch_open refused an in-domain request: {}", e),
                    fail_replay(&inst, &id, ctx.seed, &e),
                );
                ctx.rep.case(&inst.desc(), None);
                continue;
            }
        };
        let out = batch_check::<S>(&inst, &inst.comms, &qs, &ev, &proof, &mut vs, &mut rng);
        if !out.accepted() {
            ctx.rep.expect_fail(
                &id,
                &format!("{}/honest-rejected", S::NAME),
                &format!("honest batch proof not accepted: {:?}", out),
                fail_replay(&inst, &id, ctx.seed, "batch_check(honest) != Ok(true)"),
            );
        }
        if out.accepted() && sp.probe() != vs.probe() {
            ctx.rep.expect_fail(
                &id,
                &format!("{}/sponge-diverged", S::NAME),
                "prover and verifier sponges differ after an accepted batch",
                fail_replay(&inst, &id, ctx.seed, "sponge end states differ"),
            );
        }
        // independent permutation of the verifier's commitment list
        let mut comms2 = inst.comms.clone();
        shuffle(&mut rng, &mut comms2);
        let mut vs2 = fresh_sponge();
        vs2.absorb_seed(i as u64);
        let out2 = batch_check::<S>(&inst, &comms2, &qs, &ev, &proof, &mut vs2, &mut rng);
        if out2 != out {
            ctx.rep.expect_fail(
                &id,
                &format!("{}/verifier-order-dependent", S::NAME),
                &format!("decision changed with the order of the commitment list: {:?} vs {:?}", out, out2),
                fail_replay(&inst, &id, ctx.seed, "permuted commitment list"),
            );
        }
        // consistent permutation of the prover's lists: same proof bytes for deterministic provers,
        // accepted in any case
        let mut idx: Vec<usize> = (0..inst.polys.len()).collect();
        shuffle(&mut rng, &mut idx);
        let polys2: Vec<_> = idx.iter().map(|&j| inst.polys[j].clone()).collect();
        let comms3: Vec<_> = idx.iter().map(|&j| inst.comms[j].clone()).collect();
        let states3: Vec<_> = idx.iter().map(|&j| inst.states[j].clone()).collect();
        inst.polys = polys2;
        inst.comms = comms3;
        inst.states = states3;
        let mut sp3 = fresh_sponge();
        sp3.absorb_seed(i as u64);
        let mut vs3 = sp3.clone();
        match batch_open::<S>(&inst, &qs, &mut sp3, &mut rng) {
            Ok(p3) => {
                let out3 = batch_check::<S>(&inst, &comms2, &qs, &ev, &p3, &mut vs3, &mut rng);
                if !out3.accepted() {
                    ctx.rep.expect_fail(
                        &id,
                        &format!("{}/prover-order-dependent", S::NAME),
                        &format!("proof from permuted prover lists not accepted: {:?}", out3),
                        fail_replay(&inst, &id, ctx.seed, "permuted prover lists"),
                    );
                }
            }
            Err(e) => ctx.rep.expect_fail(
                &id,
                &format!("{}/prover-order-dependent", S::NAME),
                &format!("batch_open refused permuted lists: {}", e),
                fail_replay(&inst, &id, ctx.seed, "permuted prover lists"),
            ),
        }
        ctx.rep.count(&format!("{}/labels-{}", S::NAME, nlabels));
        ctx.rep.count(&format!("{}/polys-{}", S::NAME, npoly));
        for k in &inst.kinds {
            ctx.rep.count(&format!("{}/poly-{}", S::NAME, k));
        }
        let nontrivial = if qs.len() >= 2 {
            Some(format!("{}/{}/{}/{}", S::NAME, npoly, nlabels, qs.len()))
        } else {
            None
        };
        ctx.rep.case(&format!("{} queries={}", inst.desc(), qs.len()), nontrivial);
    }
}

// ------------------------------------------------------------------------------------------------
// C02 / C05 at trait level: statement mutations in batches; batch = AND(individual)
// ------------------------------------------------------------------------------------------------
pub fn c02_c05<S: Scheme>(ctx: &mut Ctx, prop: &str, n: usize)
where
    Pt<S>: Clone + Ord + std::fmt::Debug,
    SProof<S>: Clone,
    Comm<S>: Clone,
    BProof<S>: Clone,
{
    for i in 0..n {
        let id0 = format!("{}/{}/{}", prop, S::NAME, i);
        if !ctx.selected(&id0) {
            continue;
        }
        let mut rng = rng_for(ctx.seed, &format!("{}/{}", prop, S::NAME), i as u64);
        let npoly = range(&mut rng, 2, 4);
        let inst = match guarded(|| instance::<S>(&mut rng, ctx.thorough, npoly)) {
            Ok(Ok(x)) => x,
            _ => continue,
        };
        let nlabels = range(&mut rng, 2, 3);
        let (mut qs, mut ev) = query_set::<S>(&mut rng, &inst, nlabels, true);
        // every third case: two point labels carrying ONE point value with different polynomials under them
        let equal_point_values = i % 3 == 1 && inst.polys.len() >= 2;
        if equal_point_values {
            qs = QuerySet::new();
            ev = Evaluations::new();
            let z = S::rand_point(&mut rng, &inst.sizes);
            let z2 = S::rand_point(&mut rng, &inst.sizes);
            for (j, p) in inst.polys.iter().enumerate() {
                // the two equal point values sit under labels (pt0, pt1), (pt0, pt2) or (pt1, pt2) in turn
                let (pl, pt) = match ((i / 3) % 3, j) {
                    (0, 0) => ("pt0", z.clone()), (0, 1) => ("pt1", z.clone()), (0, _) => ("pt2", z2.clone()),
                    (1, 0) => ("pt0", z.clone()), (1, 1) => ("pt2", z.clone()), (1, _) => ("pt1", z2.clone()),
                    (_, 0) => ("pt1", z.clone()), (_, 1) => ("pt2", z.clone()), (_, _) => ("pt0", z2.clone()),
                };
                qs.insert((p.label().clone(), (pl.to_string(), pt.clone())));
                ev.insert((p.label().clone(), pt.clone()), p.evaluate(&pt));
            }
        }
        let mut sp = fresh_sponge();
        let proof = match batch_open::<S>(&inst, &qs, &mut sp, &mut rng) {
            Ok(p) => p,
            Err(_) => continue,
        };
        let proofs: Vec<SProof<S>> = proof.clone().into();
        let keys: Vec<(String, Pt<S>)> = ev.keys().cloned().collect();
        if i == 0 {
            short_challenges::<S>(ctx, prop, &inst, &qs, &ev, &proof, &mut rng);
        }
        if equal_point_values {
            // Errors on the two polynomials tuned to the verifier's own (public, transcript-derived) challenges:
            // `x_a·δ_p + x_b·δ_q = 0` for every ordered pair of challenges the verifier squeezes on this batch.
            // Whatever the scheme's weighting, these are false claims and the batch must not be accepted — a
            // verifier that adds the equations of two point labels sharing a point value accepts one of them.
            let mut hsp = fresh_sponge();
            let _ = batch_check::<S>(&inst, &inst.comms, &qs, &ev, &proof, &mut hsp, &mut rng.clone());
            let mut xs: Vec<Fr> = vec![];
            for x in hsp.challenges() {
                if !x.is_zero() && !xs.contains(&x) && xs.len() < 4 {
                    xs.push(x);
                }
            }
            let (ka, kb) = (keys.iter().position(|k| k.0 == *inst.polys[0].label()), keys.iter().position(|k| k.0 == *inst.polys[1].label()));
            if let (Some(ka), Some(kb)) = (ka, kb) {
                let dd = rand_nonzero(&mut rng);
                for (ia, xa) in xs.iter().enumerate() {
                    for (ib, xb) in xs.iter().enumerate() {
                        if ia == ib {
                            continue;
                        }
                        let id = format!("{}/challenge-tuned@{},{}", id0, ia, ib);
                        let mut ev2 = ev.clone();
                        *ev2.get_mut(&keys[ka]).unwrap() += dd * ark_ff::Field::inverse(xa).unwrap();
                        *ev2.get_mut(&keys[kb]).unwrap() -= dd * ark_ff::Field::inverse(xb).unwrap();
                        let mut vsp = fresh_sponge();
                        let out = batch_check::<S>(&inst, &inst.comms, &qs, &ev2, &proof, &mut vsp, &mut rng);
                        if out.accepted() {
                            ctx.rep.expect_fail(&id, &format!("{}/false-claim-accepted/challenge-tuned-equal-point-values", S::NAME),
                                "batch with two false claims (errors tuned to the verifier's challenges, two point labels sharing one point value) accepted",
                                fail_replay(&inst, &id, ctx.seed, &format!("evaluations of {} and {} perturbed by +D/x[{}], -D/x[{}]", keys[ka].0, keys[kb].0, ia, ib)));
                        }
                        ctx.rep.count(&format!("{}/plan-challenge-tuned", S::NAME));
                    }
                }
                ctx.rep.case(&format!("{} challenge-tuned errors over {} challenges", inst.desc(), xs.len()), Some(format!("{}/{}/challenge-tuned", S::NAME, npoly)));
            }
        }
        // mutation plans: each is a set of evaluation keys to perturb
        let mut plans: Vec<(String, Vec<usize>, bool)> = vec![("honest".into(), vec![], false)];
        for k in 0..keys.len() {
            plans.push((format!("value@{}", k), vec![k], false));
        }
        if keys.len() >= 2 {
            // cancelling errors: sum of deltas is zero
            let a = range(&mut rng, 0, keys.len() - 1);
            let mut b = range(&mut rng, 0, keys.len() - 1);
            if a == b {
                b = (a + 1) % keys.len();
            }
            plans.push((format!("cancel@{},{}", a, b), vec![a, b], true));
        }
        // cancelling errors on two polynomials opened under ONE point label (one `check` call sees both)
        if let Some((_, gpt, glabels)) = group(&qs).into_iter().find(|g| g.2.len() >= 2) {
            let a = keys.iter().position(|k| k.0 == glabels[0] && k.1 == gpt);
            let b = keys.iter().position(|k| k.0 == glabels[1] && k.1 == gpt);
            if let (Some(a), Some(b)) = (a, b) {
                plans.push((format!("cancel-same-point@{},{}", a, b), vec![a, b], true));
            }
        }
        for (pname, positions, cancel) in plans {
            let id = format!("{}/{}", id0, pname);
            let mut ev2 = ev.clone();
            let delta = rand_nonzero(&mut rng);
            for (j, &k) in positions.iter().enumerate() {
                let e = ev2.get_mut(&keys[k]).unwrap();
                if cancel && j == 1 {
                    *e -= delta;
                } else {
                    *e += delta;
                }
            }
            let mut vsp = fresh_sponge();
            let brng = rng.clone();
            let out = batch_check::<S>(&inst, &inst.comms, &qs, &ev2, &proof, &mut vsp, &mut rng);
            let mut isp = fresh_sponge();
            let mut irng = brng.clone();
            let ind = individual_checks::<S>(&inst, &inst.comms, &qs, &ev2, &proofs, &mut isp, &mut irng);
            let all = ind.iter().all(|o| o.accepted()) && ind.len() == proofs.len();
            if positions.is_empty() {
                if !out.accepted() {
                    ctx.rep.expect_fail(&id, &format!("{}/honest-rejected", S::NAME),
                        &format!("honest batch rejected: {:?}", out),
                        fail_replay(&inst, &id, ctx.seed, "honest batch"));
                }
            } else if out.accepted() {
                ctx.rep.expect_fail(&id, &format!("{}/false-claim-accepted/{}", S::NAME, if cancel {"cancelling"} else {"value"}),
                    &format!("batch with false claim(s) at {:?} accepted", positions),
                    fail_replay(&inst, &id, ctx.seed, &format!("evaluations perturbed at {:?} (cancelling={})", positions, cancel)));
            }
            if out.accepted() != all {
                ctx.rep.expect_fail(&id, &format!("{}/batch-differs-from-individual", S::NAME),
                    &format!("batch_check={:?} but individual checks={:?}", out, ind),
                    fail_replay(&inst, &id, ctx.seed, &format!("plan {}", pname)));
            }
            ctx.rep.count(&format!("{}/plan-{}", S::NAME, pname.split('@').next().unwrap()));
            ctx.rep.case(
                &format!("{} plan={} out={:?}", inst.desc(), pname, out),
                Some(format!("{}/{}/{}/{}", S::NAME, npoly, nlabels, pname)),
            );
        }
        // point moved for one label (proof made for the old point)
        {
            let id = format!("{}/point", id0);
            let groups = group(&qs);
            let (gl, gpt, glabels) = groups[range(&mut rng, 0, groups.len() - 1)].clone();
            let newpt = S::rand_point(&mut rng, &inst.sizes);
            let all_const = glabels.iter().all(|l| {
                inst.polys.iter().find(|p| p.label() == l).map(|p| S::is_constant(p.polynomial())).unwrap_or(false)
            });
            if newpt != gpt && !all_const {
                let mut qs2 = QuerySet::new();
                let mut ev2 = Evaluations::new();
                for (l, (pl, pt)) in qs.iter() {
                    if *pl == gl {
                        qs2.insert((l.clone(), (pl.clone(), newpt.clone())));
                    } else {
                        qs2.insert((l.clone(), (pl.clone(), pt.clone())));
                    }
                }
                for (l, (pl, pt)) in qs.iter() {
                    let v = ev[&(l.clone(), pt.clone())];
                    if *pl == gl {
                        // keep the old value: the claim "p(newpt) = p(oldpt)" (false unless equal)
                        let p = inst.polys.iter().find(|p| p.label() == l).unwrap();
                        if p.evaluate(&newpt) == v { continue; }
                        ev2.insert((l.clone(), newpt.clone()), v);
                    } else {
                        ev2.entry((l.clone(), pt.clone())).or_insert(v);
                    }
                }
                let complete = qs2.iter().all(|(l, (_, pt))| ev2.contains_key(&(l.clone(), pt.clone())));
                if complete {
                    let mut vsp = fresh_sponge();
                    let out = batch_check::<S>(&inst, &inst.comms, &qs2, &ev2, &proof, &mut vsp, &mut rng);
                    if out.accepted() {
                        ctx.rep.expect_fail(&id, &format!("{}/false-claim-accepted/point", S::NAME),
                            "proof for one point accepted at another point",
                            fail_replay(&inst, &id, ctx.seed, &format!("point label {} moved", gl)));
                    }
                    ctx.rep.count(&format!("{}/plan-point", S::NAME));
                    ctx.rep.case(&format!("{} plan=point out={:?}", inst.desc(), out),
                        Some(format!("{}/{}/point", S::NAME, npoly)));
                }
            }
        }
        // the point of ONE member of a point label moved (the others keep the opened point): the claim
        // "q(newpt) = q(oldpt)" filed under the member's own point — never accepted (a refusal is fine)
        {
            let id = format!("{}/member-point", id0);
            let groups = group(&qs);
            if let Some((gl, gpt, glabels)) = groups.iter().find(|g| g.2.len() >= 2).cloned() {
                // not the first label of the group in set order: the group's point stays the opened one
                let member = glabels[1 + range(&mut rng, 0, glabels.len() - 2)].clone();
                let newpt = S::rand_point(&mut rng, &inst.sizes);
                let p = inst.polys.iter().find(|p| *p.label() == member).unwrap();
                let v = ev[&(member.clone(), gpt.clone())];
                // if another point label queries the same member at the same point value, its true value is filed under
                // (member, opened point) anyway and the moved claim is simply never looked at (one point label with two
                // points is outside the documented domain of a query set): not a case for this expectation
                let shared = qs.iter().any(|(l, (pl, pt))| *l == member && *pl != gl && *pt == gpt);
                if newpt != gpt && p.evaluate(&newpt) != v && !shared {
                    let mut qs2 = QuerySet::new();
                    let mut ev2 = Evaluations::new();
                    for (l, (pl, pt)) in qs.iter() {
                        if *pl == gl && *l == member {
                            qs2.insert((l.clone(), (pl.clone(), newpt.clone())));
                            ev2.insert((l.clone(), newpt.clone()), v);
                        } else {
                            qs2.insert((l.clone(), (pl.clone(), pt.clone())));
                            ev2.entry((l.clone(), pt.clone())).or_insert(ev[&(l.clone(), pt.clone())]);
                        }
                    }
                    let mut vsp = fresh_sponge();
                    let out = batch_check::<S>(&inst, &inst.comms, &qs2, &ev2, &proof, &mut vsp, &mut rng);
                    if out.accepted() {
                        ctx.rep.expect_fail(&id, &format!("{}/false-claim-accepted/member-point", S::NAME),
                            "a claim filed under another point than the one its group was opened at was accepted",
                            fail_replay(&inst, &id, ctx.seed, &format!("point label {}: query point of member {} moved", gl, member)));
                    }
                    ctx.rep.count(&format!("{}/plan-member-point", S::NAME));
                    ctx.rep.case(&format!("{} plan=member-point out={:?}", inst.desc(), out),
                        Some(format!("{}/{}/member-point", S::NAME, npoly)));
                }
            }
        }
        // commitment to a different polynomial in place of the original
        {
            let id = format!("{}/commitment", id0);
            let j = range(&mut rng, 0, inst.polys.len() - 1);
            let old = &inst.polys[j];
            let q = S::rand_poly(&mut rng, &inst.sizes, old.degree().max(1));
            let lq = LabeledPolynomial::new(old.label().clone(), q, old.degree_bound(), old.hiding_bound());
            if let Ok(Ok((cq, _))) = guarded(|| S::PC::commit(&inst.ck, [&lq], Some(&mut rng.clone()))) {
                let queried = qs.iter().any(|(l, _)| l == old.label());
                if queried {
                    let mut comms2 = inst.comms.clone();
                    comms2[j] = cq[0].clone();
                    let mut vsp = fresh_sponge();
                    let out = batch_check::<S>(&inst, &comms2, &qs, &ev, &proof, &mut vsp, &mut rng);
                    if out.accepted() {
                        ctx.rep.expect_fail(&id, &format!("{}/false-claim-accepted/commitment", S::NAME),
                            "commitment to a different polynomial accepted with the original proof",
                            fail_replay(&inst, &id, ctx.seed, &format!("commitment {} replaced", j)));
                    }
                    ctx.rep.count(&format!("{}/plan-commitment", S::NAME));
                    ctx.rep.case(&format!("{} plan=commitment out={:?}", inst.desc(), out),
                        Some(format!("{}/{}/commitment", S::NAME, npoly)));
                }
            }
        }
        // C03 attack classes at trait level: the library's prover run on another polynomial (with that
        // polynomial's own state) against the commitment of p; a proof for another point replayed
        if prop == "C03" {
            // (i) prover on q against commitment(p), claiming q(z) != p(z)
            let j = range(&mut rng, 0, inst.polys.len() - 1);
            let old = inst.polys[j].clone();
            let q = S::rand_poly(&mut rng, &inst.sizes, old.degree().max(1));
            let lq = LabeledPolynomial::new(old.label().clone(), q, old.degree_bound(), old.hiding_bound());
            if let Ok(Ok((cq, stq))) = guarded(|| S::PC::commit(&inst.ck, [&lq], Some(&mut rng.clone()))) {
                let pt = S::rand_point(&mut rng, &inst.sizes);
                let vq = lq.evaluate(&pt);
                if vq != old.evaluate(&pt) {
                    let mut sp2 = fresh_sponge();
                    let pr = guarded(|| S::PC::open(&inst.ck, [&lq], &cq, &pt, &mut sp2, &stq, Some(&mut rng.clone())));
                    if let Ok(Ok(pr)) = pr {
                        let id = format!("{}/other-polynomial", id0);
                        let mut vs2 = fresh_sponge();
                        let o = Outcome::from(guarded(|| S::PC::check(&inst.vk, [&inst.comms[j]], &pt, [vq], &pr, &mut vs2, Some(&mut rng.clone()))));
                        if o.accepted() {
                            ctx.rep.expect_fail(&id, &format!("{}/forged-proof-accepted/other-polynomial", S::NAME),
                                "proof computed from another polynomial accepted for a false value against the original commitment",
                                fail_replay(&inst, &id, ctx.seed, &format!("polynomial {} replaced on the prover's side", j)));
                        }
                        ctx.rep.count(&format!("{}/forge-other-polynomial", S::NAME));
                        ctx.rep.case(&format!("{} forge=other-polynomial out={:?}", inst.desc(), o), Some(format!("{}/{}/forge-otherpoly", S::NAME, npoly)));
                    }
                }
            }
            // (ii) an honest single-point proof for z' presented at z with the value p(z')
            let pt1 = S::rand_point(&mut rng, &inst.sizes);
            let pt2 = S::rand_point(&mut rng, &inst.sizes);
            let p0 = &inst.polys[j];
            let v1 = p0.evaluate(&pt1);
            if v1 != p0.evaluate(&pt2) {
                let mut sp3 = fresh_sponge();
                let pr = guarded(|| S::PC::open(&inst.ck, [p0], [&inst.comms[j]], &pt1, &mut sp3, [&inst.states[j]], Some(&mut rng.clone())));
                if let Ok(Ok(pr)) = pr {
                    let id = format!("{}/other-point", id0);
                    let mut vs3 = fresh_sponge();
                    let o = Outcome::from(guarded(|| S::PC::check(&inst.vk, [&inst.comms[j]], &pt2, [v1], &pr, &mut vs3, Some(&mut rng.clone()))));
                    if o.accepted() {
                        ctx.rep.expect_fail(&id, &format!("{}/forged-proof-accepted/other-point", S::NAME),
                            "proof for one point accepted at another point for a false value",
                            fail_replay(&inst, &id, ctx.seed, "replayed single-point proof"));
                    }
                    // sanity: the same proof at its own point is accepted
                    let mut vs4 = fresh_sponge();
                    let o2 = Outcome::from(guarded(|| S::PC::check(&inst.vk, [&inst.comms[j]], &pt1, [v1], &pr, &mut vs4, Some(&mut rng.clone()))));
                    if !o2.accepted() {
                        ctx.rep.expect_fail(&id, &format!("{}/honest-rejected", S::NAME), "honest single-point proof rejected", fail_replay(&inst, &id, ctx.seed, "single-point open/check"));
                    }
                    ctx.rep.count(&format!("{}/forge-other-point", S::NAME));
                    ctx.rep.case(&format!("{} forge=other-point out={:?}", inst.desc(), o), Some(format!("{}/{}/forge-otherpoint", S::NAME, npoly)));
                }
            }
        }
        // proof-list shape: permuted / truncated / extended / duplicated
        if prop == "C05" || prop == "C03" {
            let shapes: Vec<(&str, Vec<SProof<S>>)> = {
                let mut v: Vec<(&str, Vec<SProof<S>>)> = vec![];
                v.push(("empty", vec![]));
                if proofs.len() >= 1 {
                    v.push(("truncated", proofs[..proofs.len() - 1].to_vec()));
                    let mut e = proofs.clone();
                    e.push(proofs[0].clone());
                    v.push(("extended", e));
                }
                if proofs.len() >= 2 {
                    let mut p = proofs.clone();
                    p.swap(0, 1);
                    v.push(("swapped", p));
                    let mut d = proofs.clone();
                    d[1] = d[0].clone();
                    v.push(("duplicated", d));
                }
                v
            };
            // a false claim somewhere so that acceptance is never legitimate
            let mut ev2 = ev.clone();
            let k = range(&mut rng, 0, keys.len() - 1);
            *ev2.get_mut(&keys[k]).unwrap() += rand_nonzero(&mut rng);
            for (sname, plist) in shapes {
                let id = format!("{}/shape-{}", id0, sname);
                let bp: BProof<S> = plist.into();
                let mut vsp = fresh_sponge();
                let out_false = batch_check::<S>(&inst, &inst.comms, &qs, &ev2, &bp, &mut vsp, &mut rng);
                if out_false.accepted() {
                    ctx.rep.expect_fail(&id, &format!("{}/false-claim-accepted/shape-{}", S::NAME, sname),
                        &format!("false claim accepted with a {} proof list", sname),
                        fail_replay(&inst, &id, ctx.seed, &format!("proof list {}", sname)));
                }
                ctx.rep.count(&format!("{}/shape-{}", S::NAME, sname));
                ctx.rep.case(&format!("{} shape={} out={:?}", inst.desc(), sname, out_false),
                    Some(format!("{}/{}/shape-{}", S::NAME, npoly, sname)));
            }
        }
    }
}

impl LogSponge {
    /// pre-seed the transcript with arbitrary absorbed data
    pub fn absorb_seed(&mut self, x: u64) {
        use ark_crypto_primitives::sponge::CryptographicSponge;
        self.absorb(&x.to_le_bytes().to_vec());
        self.log.clear();
    }
}

#[allow(dead_code)]
pub fn lc_unused(_: &LinearCombination<Fr>) {}
#[allow(dead_code)]
pub fn one() -> Fr {
    Fr::one()
}

// ------------------------------------------------------------------------------------------------
// C07 at trait level
// ------------------------------------------------------------------------------------------------
fn ser<T: CanonicalSerialize>(x: &T) -> Vec<u8> {
    let mut v = vec![];
    x.serialize_compressed(&mut v).unwrap();
    v
}

pub fn c07<S: Scheme>(ctx: &mut Ctx, n: usize)
where
    Pt<S>: Clone + Ord + std::fmt::Debug,
    Comm<S>: Clone,
{
    if !S::HIDING {
        return;
    }
    for i in 0..n {
        let id = format!("C07/{}/{}", S::NAME, i);
        if !ctx.selected(&id) {
            continue;
        }
        let mut rng = rng_for(ctx.seed, &format!("C07/{}", S::NAME), i as u64);
        let sizes = S::sizes(&mut rng, ctx.thorough);
        let pp = match S::PC::setup(sizes.max_degree, sizes.num_vars, &mut rng) {
            Ok(p) => p,
            Err(_) => continue,
        };
        let deg = range(&mut rng, 1, sizes.supported);
        // every third case: the zero polynomial or a constant — hiding must not depend on the polynomial
        let special = if i % 3 == 2 { S::special_poly(&mut rng, &sizes, (i / 3) % 2).map(|x| x.0) } else { None };
        let poly = match special { Some(p) => p, None => S::rand_poly(&mut rng, &sizes, deg) };
        let bound = if S::BOUNDS && coin(&mut rng) { Some(range(&mut rng, poly.degree().max(1), sizes.supported)) } else { None };
        let hi = bound.unwrap_or(sizes.supported).min(sizes.supported).max(1);
        let h = range(&mut rng, 1, hi);
        let bounds_vec = bound.map(|b| vec![b]);
        let (ck, _vk) = match S::PC::trim(&pp, sizes.supported, sizes.supported, bounds_vec.as_deref()) {
            Ok(k) => k,
            Err(_) => continue,
        };
        let lp_h = LabeledPolynomial::new("p".to_string(), poly.clone(), bound, Some(h));
        let lp_n = LabeledPolynomial::new("p".to_string(), poly.clone(), bound, None);
        let seed_rng = rng.clone();
        let mut r1 = CountRng::new(seed_rng.clone());
        let c1 = guarded(|| S::PC::commit(&ck, [&lp_h], Some(&mut r1)));
        let (c1, _st1) = match c1 {
            Ok(Ok(x)) => x,
            other => {
                ctx.rep.expect_fail(&id, &format!("{}/hiding-commit-refused", S::NAME),
                    &format!("in-domain hiding commit refused: {:?}", other.map(|r| r.map(|_| ()).map_err(|e| err_kind(&e)))),
                    format!("# scheme: {}\n# case {}\n# sizes {:?} bound {:?} h {}\n", S::NAME, id, sizes, bound, h));
                continue;
            }
        };
        let mut r1b = seed_rng.clone();
        let (c1b, _) = S::PC::commit(&ck, [&lp_h], Some(&mut r1b)).unwrap();
        let mut r2 = rng_for(ctx.seed ^ 0x5eed, &format!("C07/{}/other", S::NAME), i as u64);
        let (c2, _) = S::PC::commit(&ck, [&lp_h], Some(&mut r2)).unwrap();
        if r1.bytes == 0 {
            ctx.rep.expect_fail(&id, &format!("{}/hiding-without-caller-rng", S::NAME), "hiding commit drew nothing from the caller's RNG",
                format!("# scheme: {}\n# case {}\n", S::NAME, id));
        }
        if ser(c1[0].commitment()) != ser(c1b[0].commitment()) {
            ctx.rep.expect_fail(&id, &format!("{}/same-seed-differs", S::NAME), "same RNG seed gave a different commitment",
                format!("# scheme: {}\n# case {}\n", S::NAME, id));
        }
        if ser(c1[0].commitment()) == ser(c2[0].commitment()) {
            ctx.rep.expect_fail(&id, &format!("{}/other-seed-equal", S::NAME), "independent RNG streams gave the same commitment",
                format!("# scheme: {}\n# case {}\n", S::NAME, id));
        }
        // N repeated commitments from one running stream pairwise distinct
        let mut seen = std::collections::BTreeSet::new();
        let mut rr = rng.clone();
        for _ in 0..4 {
            let (c, _) = S::PC::commit(&ck, [&lp_h], Some(&mut rr)).unwrap();
            seen.insert(ser(c[0].commitment()));
        }
        if seen.len() != 4 {
            ctx.rep.expect_fail(&id, &format!("{}/repeated-commitments-collide", S::NAME), "repeated hiding commitments are not pairwise distinct",
                format!("# scheme: {}\n# case {}\n", S::NAME, id));
        }
        // missing RNG
        let no = guarded(|| S::PC::commit(&ck, [&lp_h], None));
        if matches!(no, Ok(Ok(_))) {
            ctx.rep.expect_fail(&id, &format!("{}/missing-rng-answered", S::NAME), "hiding commit without RNG returned a commitment",
                format!("# scheme: {}\n# case {}\n", S::NAME, id));
        }
        // no hiding bound: deterministic, RNG untouched, differs from the hiding commitment
        let mut r3 = CountRng::new(seed_rng.clone());
        let (cn1, _) = S::PC::commit(&ck, [&lp_n], Some(&mut r3)).unwrap();
        let (cn2, _) = S::PC::commit(&ck, [&lp_n], None).unwrap();
        if r3.bytes != 0 || ser(cn1[0].commitment()) != ser(cn2[0].commitment()) {
            ctx.rep.expect_fail(&id, &format!("{}/nonhiding-not-deterministic", S::NAME), "non-hiding commit used the RNG or is not deterministic",
                format!("# scheme: {}\n# case {}\n", S::NAME, id));
        }
        if ser(cn1[0].commitment()) == ser(c1[0].commitment()) {
            ctx.rep.expect_fail(&id, &format!("{}/hiding-not-blinded", S::NAME), "hiding commitment equals the non-hiding one",
                format!("# scheme: {}\n# case {}\n", S::NAME, id));
        }
        ctx.rep.count(&format!("{}/bound-{}", S::NAME, bound.is_some()));
        ctx.rep.case(&format!("{} hiding h={} bound={:?} deg={} rng-bytes={}", S::NAME, h, bound, poly.degree(), r1.bytes),
            Some(format!("{}/{}/{:?}/{}", S::NAME, h, bound, poly.degree())));
    }
}

pub fn c07_all(ctx: &mut Ctx) {
    let n = ctx.n(15, 200);
    c07::<Marlin>(ctx, n);
    c07::<Sonic>(ctx, n);
    c07::<Ipa>(ctx, n);
    c07::<Pst13>(ctx, n);
    c07_hyrax(ctx, n);
}

// ------------------------------------------------------------------------------------------------
// C08 at trait level: determinism, injectivity on samples, and (group schemes) naive key sums
// ------------------------------------------------------------------------------------------------
pub fn c08<S: Scheme>(ctx: &mut Ctx, n: usize, plain_part: &dyn Fn(&CK<S>, &S::P, &Comm<S>) -> Option<bool>)
where
    Pt<S>: Clone + Ord + std::fmt::Debug,
{
    for i in 0..n {
        let id = format!("C08/{}/{}", S::NAME, i);
        if !ctx.selected(&id) {
            continue;
        }
        let mut rng = rng_for(ctx.seed, &format!("C08/{}", S::NAME), i as u64);
        let sizes = S::sizes(&mut rng, ctx.thorough);
        let pp = match S::PC::setup(sizes.max_degree, sizes.num_vars, &mut rng) {
            Ok(p) => p,
            Err(_) => continue,
        };
        let (ck, _vk) = match S::PC::trim(&pp, sizes.supported, 1, None) {
            Ok(k) => k,
            Err(_) => continue,
        };
        let d1 = range(&mut rng, 1, sizes.supported);
        let pick = range(&mut rng, 0, 5);
        let special = if pick < 2 { S::special_poly(&mut rng, &sizes, pick).map(|x| x.0) } else { None };
        let p = match special {
            Some(x) => x,
            None => S::rand_poly(&mut rng, &sizes, d1),
        };
        let d2 = range(&mut rng, 1, sizes.supported);
        let q = S::rand_poly(&mut rng, &sizes, d2);
        let lp = LabeledPolynomial::new("p".to_string(), p.clone(), None, None);
        let lq = LabeledPolynomial::new("q".to_string(), q.clone(), None, None);
        // Hyrax commitments are always blinded: determinism is not claimed there
        let deterministic = S::NAME != "hyrax";
        let mut ra = rng.clone();
        let mut rb = rng.clone();
        let a = guarded(|| S::PC::commit(&ck, [&lp, &lq], Some(&mut ra)));
        let b = guarded(|| S::PC::commit(&ck, [&lp, &lq], Some(&mut rb)));
        let (ca, cb) = match (a, b) {
            (Ok(Ok(x)), Ok(Ok(y))) => (x.0, y.0),
            _ => {
                ctx.rep.expect_fail(&id, &format!("{}/in-domain-commit-refused", S::NAME), "non-hiding commit refused",
                    format!("# scheme: {}\n# case {}\n# sizes {:?}\n", S::NAME, id, sizes));
                continue;
            }
        };
        if deterministic && ser(ca[0].commitment()) != ser(cb[0].commitment()) {
            ctx.rep.expect_fail(&id, &format!("{}/commit-not-deterministic", S::NAME), "equal polynomials gave different commitments",
                format!("# scheme: {}\n# case {}\n", S::NAME, id));
        }
        if deterministic && ser(ca[0].commitment()) == ser(ca[1].commitment()) {
            // p == q happens with negligible probability for random q
            ctx.rep.expect_fail(&id, &format!("{}/commit-not-injective", S::NAME), "different polynomials gave equal commitments",
                format!("# scheme: {}\n# case {}\n", S::NAME, id));
        }
        if let Some(ok) = plain_part(&ck, &p, ca[0].commitment()) {
            if !ok {
                ctx.rep.expect_fail(&id, &format!("{}/commit-not-key-defined", S::NAME), "commitment differs from the naive sum over the published key",
                    format!("# scheme: {}\n# case {}\n# sizes {:?}\n", S::NAME, id, sizes));
            }
        }
        ctx.rep.case(&format!("{} commit sizes={:?} deg={}", S::NAME, sizes, p.degree()), Some(format!("{}/{}/{:?}", S::NAME, p.degree(), sizes.num_vars)));
    }
}

pub fn c08_all(ctx: &mut Ctx) {
    use crate::props_c08::naive_sum;
    use ark_ec::CurveGroup;
    let n = ctx.n(12, 150);
    c08::<Marlin>(ctx, n, &|ck, p, c| Some(naive_sum(&ck.powers, &p.coeffs).into_affine() == c.comm.0));
    c08::<Sonic>(ctx, n, &|ck, p, c| Some(naive_sum(&ck.powers_of_g, &p.coeffs).into_affine() == c.0));
    c08::<Ipa>(ctx, n, &|ck, p, c| Some(naive_sum(&ck.comm_key, &p.coeffs).into_affine() == c.comm));
    c08::<Pst13>(ctx, n, &|_, _, _| None);
    c08::<Hyrax>(ctx, n.min(20), &|_, _, _| None);
    c08::<UniLigero>(ctx, n.min(20), &|_, _, _| None);
    c08::<MlLigero>(ctx, n.min(20), &|_, _, _| None);
    c08::<Brakedown>(ctx, n.min(20), &|_, _, _| None);
}

// ------------------------------------------------------------------------------------------------
// C17 at trait level: out-of-domain requests must end in Err / abort
// ------------------------------------------------------------------------------------------------
pub fn c17<S: Scheme>(ctx: &mut Ctx, n: usize)
where
    Pt<S>: Clone + Ord + std::fmt::Debug,
    Comm<S>: Clone,
    SProof<S>: Clone,
{
    let refuse = |ctx: &mut Ctx, id: &str, kind: &str, answered: bool, detail: String| {
        ctx.rep.count(&format!("{}/{}", S::NAME, kind));
        ctx.rep.case(&format!("{} {} answered={}", S::NAME, kind, answered), Some(format!("{}/{}/{}", S::NAME, kind, id.rsplit('/').next().unwrap_or(""))));
        if answered {
            ctx.rep.expect_fail(id, &format!("{}/out-of-domain-answered/{}", S::NAME, kind),
                &format!("out-of-domain request ({}) was answered instead of refused", kind),
                format!("# scheme: {}\n# case {}\n# kind {}\n# {}\n", S::NAME, id, kind, detail));
        }
    };
    // setup with zero degree / zero variables
    {
        let id = format!("C17/{}/setup", S::NAME);
        if ctx.selected(&id) {
            let mut rng = rng_for(ctx.seed, &format!("C17/{}/setup", S::NAME), 0);
            let s0 = S::sizes(&mut rng, false);
            if s0.num_vars.is_none() {
                let r = guarded(|| S::PC::setup(0, None, &mut rng.clone()));
                // linear codes ignore max_degree by design (transparent setup): only report group schemes
                if S::SETUP_REFUSES_ZERO {
                    refuse(ctx, &id, "setup-degree-0", matches!(r, Ok(Ok(_))), "setup(0, None)".into());
                }
            } else if S::NAME == "pst13" {
                let r = guarded(|| S::PC::setup(s0.max_degree, Some(0), &mut rng.clone()));
                refuse(ctx, &id, "setup-vars-0", matches!(r, Ok(Ok(_))), "setup(D, Some(0))".into());
                let r = guarded(|| S::PC::setup(0, s0.num_vars, &mut rng.clone()));
                refuse(ctx, &id, "setup-degree-0", matches!(r, Ok(Ok(_))), "setup(0, nv)".into());
                let r = guarded(|| S::PC::setup(s0.max_degree, None, &mut rng.clone()));
                refuse(ctx, &id, "setup-vars-none", matches!(r, Ok(Ok(_))), "setup(D, None)".into());
            }
        }
    }
    for i in 0..n {
        let id = format!("C17/{}/{}", S::NAME, i);
        if !ctx.selected(&id) {
            continue;
        }
        let mut rng = rng_for(ctx.seed, &format!("C17/{}", S::NAME), i as u64);
        let inst = match guarded(|| instance::<S>(&mut rng, false, 2)) {
            Ok(Ok(x)) => x,
            _ => continue,
        };
        let mut sizes = inst.sizes.clone();
        sizes.supported = S::true_supported(&inst.ck, &sizes);
        // (1) polynomial larger than the key supports
        if S::BOUNDS || S::NAME == "pst13" {
            let big = S::rand_poly(&mut rng, &Sizes { supported: sizes.supported + 1, max_degree: sizes.max_degree + 1, num_vars: sizes.num_vars }, sizes.supported + 1);
            if big.degree() > sizes.supported {
                let lp = LabeledPolynomial::new("big".to_string(), big, None, None);
                let r = guarded(|| S::PC::commit(&inst.ck, [&lp], Some(&mut rng.clone())));
                refuse(ctx, &id, "degree-supported+1", matches!(r, Ok(Ok(_))), format!("sizes {:?}", sizes));
            }
        }
        // (1b) the same with zero low-order coefficients (X^k·q): what the committer skips must not hide the degree;
        //      and a polynomial committed under a LARGER key of the same parameters must not be opened under this one
        if S::BOUNDS {
            for over in [1usize, 2, 5] {
                if let Some(big) = S::low_zero_poly(&mut rng, sizes.supported + over) {
                    let lp = LabeledPolynomial::new("bigz".to_string(), big, None, None);
                    let r = guarded(|| S::PC::commit(&inst.ck, [&lp], Some(&mut rng.clone())));
                    refuse(ctx, &id, "degree-supported+k-low-zeros", matches!(r, Ok(Ok(_))), format!("sizes {:?} degree supported+{}", sizes, over));
                }
            }
            if sizes.supported + 1 <= sizes.max_degree && S::BOUNDS_FROM_KEY {
                if let Ok(Ok((ck_big, _))) = guarded(|| S::PC::trim(&inst.pp, sizes.supported + 1, 1, None)) {
                    for dense in [true, false] {
                        let big = if dense { Some(S::rand_poly(&mut rng, &sizes, sizes.supported + 1)) } else { S::low_zero_poly(&mut rng, sizes.supported + 1) };
                        let big = match big { Some(b) if b.degree() == sizes.supported + 1 => b, _ => continue };
                        let lp = LabeledPolynomial::new("bigo".to_string(), big, None, None);
                        if let Ok(Ok((cs, sts))) = guarded(|| S::PC::commit(&ck_big, [&lp], Some(&mut rng.clone()))) {
                            let pt = S::rand_point(&mut rng, &sizes);
                            let mut sp = fresh_sponge();
                            let r = guarded(|| S::PC::open(&inst.ck, [&lp], &cs, &pt, &mut sp, &sts, Some(&mut rng.clone())));
                            refuse(ctx, &id, "open-degree-supported+1-under-smaller-key", matches!(r, Ok(Ok(_))), format!("sizes {:?} dense {}", sizes, dense));
                        }
                    }
                }
            }
        }
        // (1c) trim asked to enforce a bound above the supported degree (within the parameters): refused, wherever the
        //      bound stands in the list
        //      (Sonic only: MarlinKZG10 takes its shifted powers from the top of the parameters and does support bounds up to
        //      max_degree for polynomials of degree ≤ supported)
        if S::NAME == "sonic" && sizes.supported < sizes.max_degree {
            let over = range(&mut rng, sizes.supported + 1, sizes.max_degree);
            let small = range(&mut rng, 1, sizes.supported);
            for list in [vec![over], vec![small, over], vec![over, small], vec![over, small, small]] {
                let r = guarded(|| S::PC::trim(&inst.pp, sizes.supported, 1, Some(&list)));
                refuse(ctx, &id, "trim-bound-above-supported", matches!(r, Ok(Ok(_))), format!("sizes {:?} bounds {:?}", sizes, list));
            }
        }
        // (2) degree bounds: not enforced by the key / below the degree / beyond supported
        if S::BOUNDS {
            let p = S::rand_poly(&mut rng, &sizes, sizes.supported);
            let enforced = inst.bounds.clone().unwrap_or_default();
            for cand in [1usize, sizes.supported.saturating_sub(1), sizes.supported, sizes.supported + 1, sizes.max_degree + 1] {
                let out_of_domain = (S::BOUNDS_FROM_KEY && !enforced.contains(&cand)) || cand < p.degree()
                    || (!S::BOUNDS_FROM_KEY && cand > sizes.supported);
                if !out_of_domain || cand == 0 {
                    continue;
                }
                let lp = LabeledPolynomial::new("b".to_string(), p.clone(), Some(cand), None);
                let r = guarded(|| S::PC::commit(&inst.ck, [&lp], Some(&mut rng.clone())));
                refuse(ctx, &id, "bad-degree-bound", matches!(r, Ok(Ok(_))), format!("bound {} enforced {:?} deg {}", cand, enforced, p.degree()));
            }
        }
        // (3) hiding: zero where refused, beyond the key, missing RNG
        if S::HIDING {
            let p = S::rand_poly(&mut rng, &sizes, 1);
            if S::HIDING_MIN > 0 {
                let lp = LabeledPolynomial::new("h0".to_string(), p.clone(), None, Some(0));
                let r = guarded(|| S::PC::commit(&inst.ck, [&lp], Some(&mut rng.clone())));
                refuse(ctx, &id, "hiding-0", matches!(r, Ok(Ok(_))), "hiding_bound = Some(0)".into());
            }
            if S::NAME != "ipa" {
                // exactly one above what the keys were trimmed for (the boundary), and two above
                // PST13 keeps the blinding tables of the whole supported degree whatever hiding bound `trim` was
                // asked for: its capacity is max(trimmed hiding bound, supported degree)
                let cap = if S::NAME == "pst13" { inst.shb.max(sizes.supported) } else { inst.shb };
                for over in [1usize, 2] {
                    let lp = LabeledPolynomial::new("hbig".to_string(), p.clone(), None, Some(cap + over));
                    let r = guarded(|| S::PC::commit(&inst.ck, [&lp], Some(&mut rng.clone())));
                    refuse(ctx, &id, "hiding-beyond-key", matches!(r, Ok(Ok(_))), format!("hiding_bound = (hiding capacity of the keys)+{} = {}", over, cap + over));
                }
            }
            let lp = LabeledPolynomial::new("norng".to_string(), p.clone(), None, Some(1));
            let r = guarded(|| S::PC::commit(&inst.ck, [&lp], None));
            refuse(ctx, &id, "hiding-no-rng", matches!(r, Ok(Ok(_))), "hiding_bound = Some(1), rng = None".into());
        }
        // (4) unknown polynomial / missing evaluation in batch calls
        {
            let (qs, ev) = query_set::<S>(&mut rng, &inst, 2, false);
            let mut sp = fresh_sponge();
            if let Ok(proof) = batch_open::<S>(&inst, &qs, &mut sp, &mut rng) {
                let (l0, (pl0, pt0)) = qs.iter().next().cloned().unwrap();
                let mut qs_unknown = qs.clone();
                qs_unknown.insert(("nosuchpoly".to_string(), (pl0.clone(), pt0.clone())));
                let mut sp2 = fresh_sponge();
                let r = batch_open::<S>(&inst, &qs_unknown, &mut sp2, &mut rng);
                refuse(ctx, &id, "open-unknown-poly", r.is_ok(), "query set names a polynomial that was not supplied".into());
                let mut ev_unknown = ev.clone();
                ev_unknown.insert(("nosuchpoly".to_string(), pt0.clone()), Fr::zero());
                let mut vs = fresh_sponge();
                let o = batch_check::<S>(&inst, &inst.comms, &qs_unknown, &ev_unknown, &proof, &mut vs, &mut rng);
                refuse(ctx, &id, "check-unknown-poly", o.accepted(), "verifier query names an unknown commitment".into());
                let mut ev_missing = ev.clone();
                ev_missing.remove(&(l0.clone(), pt0.clone()));
                let mut vs = fresh_sponge();
                let o = batch_check::<S>(&inst, &inst.comms, &qs, &ev_missing, &proof, &mut vs, &mut rng);
                refuse(ctx, &id, "check-missing-evaluation", o.accepted(), "an evaluation is missing".into());
            }
        }
        // (4b) a query naming an unknown linear combination
        {
            let (lcs, qs, ev) = gen_lcs::<S>(&mut rng, &inst, 1, 1);
            let mut sp = fresh_sponge();
            if let Ok(Ok(proof)) = guarded(|| S::PC::open_combinations(&inst.ck, &lcs, &inst.polys, &inst.comms, &qs, &mut sp, &inst.states, Some(&mut rng.clone()))) {
                let (_, (pl0, pt0)) = qs.iter().next().cloned().unwrap();
                let mut qs_u = qs.clone();
                qs_u.insert(("nosuchlc".to_string(), (pl0.clone(), pt0.clone())));
                let mut ev_u = ev.clone();
                ev_u.insert(("nosuchlc".to_string(), pt0.clone()), Fr::rand(&mut rng));
                let mut vs = fresh_sponge();
                let o = Outcome::from(guarded(|| S::PC::check_combinations(&inst.vk, &lcs, &inst.comms, &qs_u, &ev_u, &proof, &mut vs, &mut rng.clone())));
                refuse(ctx, &id, "check-unknown-combination", o.accepted(), "verifier query names a linear combination that was not supplied".into());
                let mut sp2 = fresh_sponge();
                let r = guarded(|| S::PC::open_combinations(&inst.ck, &lcs, &inst.polys, &inst.comms, &qs_u, &mut sp2, &inst.states, Some(&mut rng.clone())));
                // the prover may answer (the query is skipped) only if the verifier then refuses it
                if let Ok(Ok(p2)) = r {
                    let mut vs = fresh_sponge();
                    let o2 = Outcome::from(guarded(|| S::PC::check_combinations(&inst.vk, &lcs, &inst.comms, &qs_u, &ev_u, &p2, &mut vs, &mut rng.clone())));
                    refuse(ctx, &id, "open-unknown-combination", o2.accepted(), "prover and verifier both answered a query for an unknown linear combination".into());
                }
            }
        }
        // (4c) a claimed value missing for a queried combination (two combinations queried, one claim supplied)
        {
            let (lcs, qs, ev) = gen_lcs::<S>(&mut rng, &inst, 2, 1);
            let mut sp = fresh_sponge();
            if lcs.len() >= 2 && qs.len() >= 2 {
                if let Ok(Ok(proof)) = guarded(|| S::PC::open_combinations(&inst.ck, &lcs, &inst.polys, &inst.comms, &qs, &mut sp, &inst.states, Some(&mut rng.clone()))) {
                    let mut vs = fresh_sponge();
                    let full = Outcome::from(guarded(|| S::PC::check_combinations(&inst.vk, &lcs, &inst.comms, &qs, &ev, &proof, &mut vs, &mut rng.clone())));
                    for (l, (_, pt)) in qs.iter() {
                        let mut ev_m = ev.clone();
                        if ev_m.remove(&(l.clone(), pt.clone())).is_none() {
                            continue;
                        }
                        let mut vs = fresh_sponge();
                        let o = Outcome::from(guarded(|| S::PC::check_combinations(&inst.vk, &lcs, &inst.comms, &qs, &ev_m, &proof, &mut vs, &mut rng.clone())));
                        refuse(ctx, &id, "check-missing-combination-evaluation", o.accepted(), format!("no claimed value for the queried combination {} (complete claims: {:?})", l, full));
                    }
                }
            }
        }
        // (5) wrong number of variables
        if let Some(nv) = sizes.num_vars {
            let wrong = Sizes { num_vars: Some(nv + 1), ..sizes.clone() };
            let p = S::rand_poly(&mut rng, &wrong, 1);
            let lp = LabeledPolynomial::new("nv".to_string(), p, None, None);
            let r = guarded(|| S::PC::commit(&inst.ck, [&lp], Some(&mut rng.clone())));
            // Hyrax: an odd number of variables is refused; linear codes accept any size (transparent)
            // PST13: a polynomial declared over more variables is out of domain only if it really
            // uses a variable the key does not have (otherwise it *is* a polynomial of the key's ring)
            if (S::NAME == "pst13" && S::uses_var_at_least(lp_poly_ref(&lp), nv)) || S::NAME == "hyrax" {
                refuse(ctx, &id, "wrong-num-vars", matches!(r, Ok(Ok(_))), format!("key nv {} poly nv {}", nv, nv + 1));
            }
            // Hyrax: two variables MORE than the key was made for (the parity test passes; for n ≥ 8 the key-size
            // guard, which compares n with the number of generators, passes too: only the row commitment notices)
            // Brakedown: the key fixes the matrix shape for its number of variables; a larger polynomial must be
            // refused, not truncated to its first 2^nv evaluations (D21)
            if S::NAME == "brakedown" {
                for extra in [1usize, 2] {
                    let bigger = Sizes { num_vars: Some(nv + extra), ..sizes.clone() };
                    if nv + extra > 12 { continue; }
                    let p = S::rand_poly(&mut rng, &bigger, 1);
                    let lp = LabeledPolynomial::new("nvbig".to_string(), p, None, None);
                    let r = guarded(|| S::PC::commit(&inst.ck, [&lp], Some(&mut rng.clone())));
                    refuse(ctx, &id, "more-variables-than-the-key", matches!(r, Ok(Ok(_))), format!("key nv {} poly nv {}", nv, nv + extra));
                }
                // … and a smaller one must not be zero-padded into a different polynomial (D25)
                for fewer in [1usize, 2] {
                    if nv < fewer + 1 { continue; }
                    let smaller = Sizes { num_vars: Some(nv - fewer), ..sizes.clone() };
                    let p = S::rand_poly(&mut rng, &smaller, 1);
                    let lp = LabeledPolynomial::new("nvsmall".to_string(), p, None, None);
                    let r = guarded(|| S::PC::commit(&inst.ck, [&lp], Some(&mut rng.clone())));
                    refuse(ctx, &id, "fewer-variables-than-the-key", matches!(r, Ok(Ok(_))), format!("key nv {} poly nv {}", nv, nv - fewer));
                }
            }
            if S::NAME == "hyrax" {
                for extra in [2usize, 4] {
                    let bigger = Sizes { num_vars: Some(nv + extra), ..sizes.clone() };
                    if nv + extra > 10 { continue; }
                    let p = S::rand_poly(&mut rng, &bigger, 1);
                    let lp = LabeledPolynomial::new("nvbig".to_string(), p, None, None);
                    let r = guarded(|| S::PC::commit(&inst.ck, [&lp], Some(&mut rng.clone())));
                    refuse(ctx, &id, "more-variables-than-the-key", matches!(r, Ok(Ok(_))), format!("key nv {} poly nv {}", nv, nv + extra));
                }
            }
            // point of the wrong length at open. PST13 (like ark-poly's `evaluate`) reads the first nv
            // coordinates of a longer point, which is a consistent reading, so there the point is
            // made too short instead.
            let (qs, _ev) = query_set::<S>(&mut rng, &inst, 1, false);
            let wrong_pt_sizes = if S::NAME == "pst13" {
                if nv < 2 { continue; }
                Sizes { num_vars: Some(nv - 1), ..sizes.clone() }
            } else { wrong.clone() };
            let badpt = S::rand_point(&mut rng, &wrong_pt_sizes);
            let mut qs2 = QuerySet::new();
            for (l, (pl, _)) in qs.iter() {
                qs2.insert((l.clone(), (pl.clone(), badpt.clone())));
            }
            let mut sp = fresh_sponge();
            let r = batch_open::<S>(&inst, &qs2, &mut sp, &mut rng);
            // A prover that never reads the missing coordinate may still emit a proof; what must not
            // happen is a positive verification result for a point outside the domain.
            let answered = match r {
                Err(_) => false,
                Ok(proof) => {
                    let mut ev2 = Evaluations::new();
                    for (l, (_, pt)) in qs2.iter() {
                        ev2.insert((l.clone(), pt.clone()), Fr::rand(&mut rng));
                    }
                    let mut vs = fresh_sponge();
                    batch_check::<S>(&inst, &inst.comms, &qs2, &ev2, &proof, &mut vs, &mut rng).accepted()
                }
            };
            refuse(ctx, &id, "point-wrong-length", answered, format!("point with {:?} coordinates for {} variables", wrong_pt_sizes.num_vars, nv));
        }
        // (6) mismatched labels between polynomials and commitments in `open`
        if inst.polys.len() >= 2 {
            let pt = S::rand_point(&mut rng, &sizes);
            let mut comms = inst.comms.clone();
            comms.swap(0, 1);
            let mut sp = fresh_sponge();
            let r = guarded(|| S::PC::open(&inst.ck, &inst.polys, &comms, &pt, &mut sp, &inst.states, Some(&mut rng.clone())));
            if let Ok(Ok(proof)) = r {
                // if answered, the proof must not verify for the (true) values against the honest order
                let vals: Vec<Fr> = inst.polys.iter().map(|p| p.evaluate(&pt)).collect();
                let mut vs = fresh_sponge();
                let o = Outcome::from(guarded(|| S::PC::check(&inst.vk, &comms, &pt, vals.clone(), &proof, &mut vs, Some(&mut rng.clone()))));
                // swapped commitments with unswapped values: a false statement unless polys coincide
                let answered_wrong = o.accepted() && ser(inst.comms[0].commitment()) != ser(inst.comms[1].commitment())
                    && vals[0] != vals[1];
                refuse(ctx, &id, "mismatched-labels", answered_wrong, "commitments listed in a different order than polynomials".into());
            } else {
                refuse(ctx, &id, "mismatched-labels", false, String::new());
            }
        }
    }
}

pub fn c17_all(ctx: &mut Ctx) {
    let n = ctx.n(8, 80);
    c17::<Marlin>(ctx, n);
    c17::<Sonic>(ctx, n);
    c17::<Ipa>(ctx, n);
    c17::<Pst13>(ctx, n);
    c17::<Hyrax>(ctx, n);
    c17::<UniLigero>(ctx, n);
    c17::<MlLigero>(ctx, n);
    c17::<Brakedown>(ctx, n);
}

// ------------------------------------------------------------------------------------------------
// C19 extras: batch proofs have one element per distinct point label; sizes do not depend on the
// number of polynomials opened at a point (pairing schemes)
// ------------------------------------------------------------------------------------------------
pub fn c19_batch<S: Scheme>(ctx: &mut Ctx, n: usize, per_point_constant: bool)
where
    Pt<S>: Clone + Ord + std::fmt::Debug,
    SProof<S>: Clone,
{
    for i in 0..n {
        let id = format!("C19/{}-batch/{}", S::NAME, i);
        if !ctx.selected(&id) { continue; }
        let mut rng = rng_for(ctx.seed, &format!("C19/{}-batch", S::NAME), i as u64);
        let npoly = range(&mut rng, 1, 4);
        let inst = match guarded(|| instance::<S>(&mut rng, false, npoly)) { Ok(Ok(x)) => x, _ => continue };
        let nl = range(&mut rng, 1, 3);
        let (qs, _ev) = query_set::<S>(&mut rng, &inst, nl, true);
        let mut sp = fresh_sponge();
        if let Ok(bp) = batch_open::<S>(&inst, &qs, &mut sp, &mut rng) {
            let proofs: Vec<SProof<S>> = bp.clone().into();
            let groups = group(&qs).len();
            if proofs.len() != groups {
                ctx.rep.expect_fail(&id, &format!("{}/size-law", S::NAME), &format!("batch proof has {} elements for {} point labels", proofs.len(), groups),
                    fail_replay(&inst, &id, ctx.seed, "batch proof length"));
            }
            if per_point_constant {
                let total = ser(&bp).len();
                // every per-point proof has the same size class whatever the number of polynomials
                let per = (total - 8) as f64 / groups.max(1) as f64;
                if per > 48.0 + 1.0 + 32.0 + 0.5 && S::NAME != "pst13" {
                    ctx.rep.expect_fail(&id, &format!("{}/size-law", S::NAME), &format!("per-point proof of {} bytes grows with the number of polynomials", per),
                        fail_replay(&inst, &id, ctx.seed, "per-point proof size"));
                }
            }
            ctx.rep.case(&format!("{} batch polys={} labels={} proofs={}", S::NAME, npoly, groups, proofs.len()), Some(format!("{}-batch/{}/{}", S::NAME, npoly, groups)));
        }
    }
}

pub fn c19_extra(ctx: &mut Ctx) {
    let n = ctx.n(8, 80);
    c19_batch::<Marlin>(ctx, n, true);
    c19_batch::<Sonic>(ctx, n, true);
    c19_batch::<Pst13>(ctx, n, true);
    c19_batch::<Ipa>(ctx, n, false);
    c19_batch::<Hyrax>(ctx, n.min(10), false);
    c19_batch::<UniLigero>(ctx, n.min(10), false);
}

// ------------------------------------------------------------------------------------------------
// C11: histories of operations on one sponge; prover and verifier stay in lock-step
// ------------------------------------------------------------------------------------------------
pub enum HistOp<S: Scheme> {
    Open { idx: Vec<usize>, point: Pt<S> },
    Batch { qs: QuerySet<Pt<S>>, ev: Evaluations<Pt<S>, Fr> },
    Lc { lcs: Vec<LinearCombination<Fr>>, qs: QuerySet<Pt<S>>, ev: Evaluations<Pt<S>, Fr> },
}
pub enum HistProof<S: Scheme> {
    Open(SProof<S>),
    Batch(BProof<S>),
    Lc(ark_poly_commit::BatchLCProof<Fr, BProof<S>>),
}

/// linear combinations over unbounded polynomials of the instance (degree-bounded ones only alone
/// with coefficient one), queried at 1-2 point labels
pub fn gen_lcs<S: Scheme>(rng: &mut Rng, inst: &Instance<S>, nlc: usize, nlabels: usize)
    -> (Vec<LinearCombination<Fr>>, QuerySet<Pt<S>>, Evaluations<Pt<S>, Fr>)
where
    Pt<S>: Clone + Ord + std::fmt::Debug,
{
    use ark_poly_commit::LCTerm;
    let unbounded: Vec<usize> = (0..inst.polys.len()).filter(|&i| inst.polys[i].degree_bound().is_none()).collect();
    let bounded: Vec<usize> = (0..inst.polys.len()).filter(|&i| inst.polys[i].degree_bound().is_some()).collect();
    let mut lcs = vec![];
    for j in 0..nlc {
        let mut lc = LinearCombination::empty(format!("lc{}", j));
        if !bounded.is_empty() && (unbounded.is_empty() || range(rng, 0, 3) == 0) {
            let i = bounded[range(rng, 0, bounded.len() - 1)];
            lc.push((Fr::one(), LCTerm::PolyLabel(inst.polys[i].label().clone())));
        } else {
            let nterms = range(rng, 1, 5);
            for _ in 0..nterms {
                let coeff = match range(rng, 0, 4) { 0 => Fr::zero(), 1 => Fr::one(), 2 => -Fr::one(), _ => Fr::rand(rng) };
                if range(rng, 0, 4) == 0 {
                    lc.push((coeff, LCTerm::One));
                } else {
                    let i = unbounded[range(rng, 0, unbounded.len() - 1)];
                    lc.push((coeff, LCTerm::PolyLabel(inst.polys[i].label().clone())));
                }
            }
            if lc.iter().all(|(_, t)| t.is_one()) {
                let i = unbounded[range(rng, 0, unbounded.len() - 1)];
                lc.push((Fr::rand(rng), LCTerm::PolyLabel(inst.polys[i].label().clone())));
            }
        }
        lcs.push(lc);
    }
    let mut qs = QuerySet::new();
    let mut ev = Evaluations::new();
    let mut pts: Vec<Pt<S>> = vec![];
    for l in 0..nlabels {
        let pt = if l > 0 && coin(rng) { pts[0].clone() } else { S::rand_point(rng, &inst.sizes) };
        pts.push(pt.clone());
        let mut any = false;
        for (k, lc) in lcs.iter().enumerate() {
            if coin(rng) || (!any && k + 1 == lcs.len()) {
                any = true;
                qs.insert((lc.label().clone(), (format!("pt{}", l), pt.clone())));
                ev.insert((lc.label().clone(), pt.clone()), lc_value::<S>(inst, lc, &pt));
            }
        }
    }
    (lcs, qs, ev)
}

pub fn lc_value<S: Scheme>(inst: &Instance<S>, lc: &LinearCombination<Fr>, pt: &Pt<S>) -> Fr {
    use ark_poly_commit::LCTerm;
    let mut v = Fr::zero();
    for (c, t) in lc.iter() {
        match t {
            LCTerm::One => v += *c,
            LCTerm::PolyLabel(l) => {
                let p = inst.polys.iter().find(|p| p.label() == l).unwrap();
                v += *c * p.evaluate(pt);
            }
        }
    }
    v
}

pub fn hist_prove<S: Scheme>(inst: &Instance<S>, op: &HistOp<S>, sp: &mut LogSponge, rng: &mut Rng) -> Result<HistProof<S>, String>
where
    Pt<S>: Clone + Ord + std::fmt::Debug,
{
    match op {
        HistOp::Open { idx, point } => {
            let ps: Vec<_> = idx.iter().map(|&i| &inst.polys[i]).collect();
            let cs: Vec<_> = idx.iter().map(|&i| &inst.comms[i]).collect();
            let ss: Vec<_> = idx.iter().map(|&i| &inst.states[i]).collect();
            match guarded(|| S::PC::open(&inst.ck, ps, cs, point, sp, ss, Some(rng))) {
                Ok(Ok(p)) => Ok(HistProof::Open(p)),
                Ok(Err(e)) => Err(err_kind(&e)),
                Err(a) => Err(a),
            }
        }
        HistOp::Batch { qs, .. } => batch_open::<S>(inst, qs, sp, rng).map(HistProof::Batch),
        HistOp::Lc { lcs, qs, .. } => match guarded(|| S::PC::open_combinations(&inst.ck, lcs, &inst.polys, &inst.comms, qs, sp, &inst.states, Some(rng))) {
            Ok(Ok(p)) => Ok(HistProof::Lc(p)),
            Ok(Err(e)) => Err(err_kind(&e)),
            Err(a) => Err(a),
        },
    }
}

pub fn hist_verify<S: Scheme>(inst: &Instance<S>, op: &HistOp<S>, proof: &HistProof<S>, vs: &mut LogSponge, rng: &mut Rng) -> Outcome
where
    Pt<S>: Clone + Ord + std::fmt::Debug,
{
    match (op, proof) {
        (HistOp::Open { idx, point }, HistProof::Open(p)) => {
            let cs: Vec<_> = idx.iter().map(|&i| &inst.comms[i]).collect();
            let vals: Vec<Fr> = idx.iter().map(|&i| inst.polys[i].evaluate(point)).collect();
            Outcome::from(guarded(|| S::PC::check(&inst.vk, cs, point, vals, p, vs, Some(rng))))
        }
        (HistOp::Batch { qs, ev }, HistProof::Batch(p)) => batch_check::<S>(inst, &inst.comms, qs, ev, p, vs, rng),
        (HistOp::Lc { lcs, qs, ev }, HistProof::Lc(p)) => Outcome::from(guarded(|| S::PC::check_combinations(&inst.vk, lcs, &inst.comms, qs, ev, p, vs, rng))),
        _ => Outcome::Refuse("proof of another kind".into()),
    }
}

pub fn c11<S: Scheme>(ctx: &mut Ctx, n: usize)
where
    Pt<S>: Clone + Ord + std::fmt::Debug,
{
    for i in 0..n {
        let id = format!("C11/{}/{}", S::NAME, i);
        if !ctx.selected(&id) { continue; }
        let mut rng = rng_for(ctx.seed, &format!("C11/{}", S::NAME), i as u64);
        let npoly = range(&mut rng, 2, 4);
        let inst = match guarded(|| instance::<S>(&mut rng, ctx.thorough, npoly)) { Ok(Ok(x)) => x, _ => continue };
        let nonconst: Vec<usize> = (0..npoly).filter(|&k| !S::is_constant(inst.polys[k].polynomial())).collect();
        if nonconst.is_empty() { continue; }
        let nops = range(&mut rng, 2, if ctx.thorough { 6 } else { 4 });
        let mut ops: Vec<HistOp<S>> = vec![];
        for _ in 0..nops {
            match range(&mut rng, 0, 2) {
                0 => {
                    let mut idx: Vec<usize> = (0..npoly).filter(|_| coin(&mut rng)).collect();
                    if !idx.iter().any(|k| nonconst.contains(k)) { idx.push(nonconst[0]); }
                    idx.sort(); idx.dedup();
                    ops.push(HistOp::Open { idx, point: S::rand_point(&mut rng, &inst.sizes) });
                }
                1 => { let nl = range(&mut rng, 1, 2); let (qs, ev) = query_set::<S>(&mut rng, &inst, nl, true); ops.push(HistOp::Batch { qs, ev }); }
                _ => { let nl = range(&mut rng, 1, 2); let (lcs, qs, ev) = gen_lcs::<S>(&mut rng, &inst, nl, 1); ops.push(HistOp::Lc { lcs, qs, ev }); }
            }
        }
        let mut sp = fresh_sponge();
        sp.absorb_seed(ctx.seed ^ i as u64);
        let mut vs = sp.clone();
        let pre = sp.clone();
        let mut proofs: Vec<HistProof<S>> = vec![];
        let mut ok = true;
        for (k, op) in ops.iter().enumerate() {
            let kind = match op { HistOp::Open { .. } => "open", HistOp::Batch { .. } => "batch", HistOp::Lc { .. } => "lc" };
            let pr = match hist_prove::<S>(&inst, op, &mut sp, &mut rng) {
                Ok(p) => p,
                Err(e) => {
                    ctx.rep.expect_fail(&id, &format!("{}/history-open-refused/{}", S::NAME, kind), &format!("op {} ({}) refused: {}", k, kind, e), fail_replay(&inst, &id, ctx.seed, &format!("history op {} {}", k, kind)));
                    ok = false; break;
                }
            };
            let out = hist_verify::<S>(&inst, op, &pr, &mut vs, &mut rng);
            if !out.accepted() {
                ctx.rep.expect_fail(&id, &format!("{}/history-rejected/{}", S::NAME, kind), &format!("honest proof of op {} ({}) in a history not accepted: {:?}", k, kind, out), fail_replay(&inst, &id, ctx.seed, &format!("history op {} {}", k, kind)));
                ok = false; break;
            }
            if sp.log != vs.log || sp.probe() != vs.probe() {
                ctx.rep.expect_fail(&id, &format!("{}/sponge-diverged/{}", S::NAME, kind), &format!("prover and verifier transcripts differ after op {} ({}): prover [{}] verifier [{}]", k, kind, sp.shape(), vs.shape()), fail_replay(&inst, &id, ctx.seed, &format!("history op {} {}", k, kind)));
                ok = false; break;
            }
            ctx.rep.count(&format!("{}/op-{}", S::NAME, kind));
            proofs.push(pr);
        }
        ctx.rep.case(&format!("{} history ops={} events=[{}]", inst.desc(), nops, sp.shape().chars().take(120).collect::<String>()), Some(format!("{}/hist/{}/{}", S::NAME, nops, sp.log.len())));
        if !ok { continue; }
        // the negative statements of C11 are about non-constant polynomials: for a constant
        // polynomial the displaced statement is still a true, transcript-independent claim
        if nonconst.len() != npoly { continue; }
        // combination openings may combine to a constant polynomial (zero coefficients,
        // cancelling terms): only plain and batched openings are used for the negative statements
        let plain = |op: &HistOp<S>| !matches!(op, HistOp::Lc { .. });
        // (a) perturbed pre-state: the first check must not accept
        if plain(&ops[0]) {
            let mut vs2 = pre.clone();
            use ark_crypto_primitives::sponge::CryptographicSponge;
            vs2.absorb(&vec![1u8, 2, 3]);
            let out = hist_verify::<S>(&inst, &ops[0], &proofs[0], &mut vs2, &mut rng);
            if out.accepted() {
                ctx.rep.expect_fail(&id, &format!("{}/accepted-on-other-transcript/pre-state", S::NAME), "proof accepted against a sponge with different prior absorbs", fail_replay(&inst, &id, ctx.seed, "perturbed pre-state"));
            }
            ctx.rep.count(&format!("{}/perturbed-pre-state", S::NAME));
            ctx.rep.case(&format!("{} perturbed pre-state out={:?}", S::NAME, out), Some(format!("{}/pre/{}", S::NAME, i)));
        }
        // (b) a proof moved to another position of the sequence: replay op 1's statement and proof first
        if ops.len() >= 2 && plain(&ops[1]) {
            let mut vs3 = pre.clone();
            let out = hist_verify::<S>(&inst, &ops[1], &proofs[1], &mut vs3, &mut rng);
            // the statement of op 1 is true; only the transcript position is wrong
            if out.accepted() {
                ctx.rep.expect_fail(&id, &format!("{}/accepted-on-other-transcript/displaced", S::NAME), "proof accepted at another position of the history", fail_replay(&inst, &id, ctx.seed, "proof of op 1 verified first"));
            }
            ctx.rep.count(&format!("{}/displaced", S::NAME));
            ctx.rep.case(&format!("{} displaced proof out={:?}", S::NAME, out), Some(format!("{}/disp/{}", S::NAME, i)));
        }
    }
}

pub fn c11_all(ctx: &mut Ctx) {
    let n = ctx.n(8, 100);
    c11::<Marlin>(ctx, n);
    c11::<Sonic>(ctx, n);
    c11::<Ipa>(ctx, n);
    c11::<Pst13>(ctx, n);
    c11::<Hyrax>(ctx, n);
    c11::<UniLigero>(ctx, n);
    c11::<MlLigero>(ctx, n.min(30));
    c11::<Brakedown>(ctx, n.min(30));
}

// ------------------------------------------------------------------------------------------------
// C06: linear-combination openings
// ------------------------------------------------------------------------------------------------
pub fn c06<S: Scheme>(ctx: &mut Ctx, n: usize)
where
    Pt<S>: Clone + Ord + std::fmt::Debug,
    BProof<S>: Clone,
{
    use ark_poly_commit::{BatchLCProof, LCTerm};
    for i in 0..n {
        let id0 = format!("C06/{}/{}", S::NAME, i);
        if !ctx.selected(&id0) { continue; }
        let mut rng = rng_for(ctx.seed, &format!("C06/{}", S::NAME), i as u64);
        let npoly = range(&mut rng, 2, 5);
        let inst = match guarded(|| instance::<S>(&mut rng, ctx.thorough, npoly)) { Ok(Ok(x)) => x, _ => continue };
        let has_unbounded = inst.polys.iter().any(|p| p.degree_bound().is_none());
        if !has_unbounded && !S::BOUNDS { continue; }
        let nlc = range(&mut rng, 1, 3);
        let nlabels = range(&mut rng, 1, 3);
        let (lcs, qs, ev) = gen_lcs::<S>(&mut rng, &inst, nlc, nlabels);
        let open = |rng: &mut Rng, lcs: &Vec<LinearCombination<Fr>>, qs: &QuerySet<Pt<S>>| {
            let mut sp = fresh_sponge();
            guarded(|| S::PC::open_combinations(&inst.ck, lcs, &inst.polys, &inst.comms, qs, &mut sp, &inst.states, Some(rng)))
        };
        let check = |rng: &mut Rng, lcs: &Vec<LinearCombination<Fr>>, qs: &QuerySet<Pt<S>>, ev: &Evaluations<Pt<S>, Fr>, proof: &BatchLCProof<Fr, BProof<S>>| {
            let mut vs = fresh_sponge();
            Outcome::from(guarded(|| S::PC::check_combinations(&inst.vk, lcs, &inst.comms, qs, ev, proof, &mut vs, rng)))
        };
        let proof = match open(&mut rng, &lcs, &qs) {
            Ok(Ok(p)) => p,
            other => {
                ctx.rep.expect_fail(&id0, &format!("{}/lc-honest-refused", S::NAME), &format!("open_combinations refused an in-domain request: {:?}", other.map(|r| r.map(|_| ()).map_err(|e| err_kind(&e)))),
                    fail_replay(&inst, &id0, ctx.seed, &format!("lcs {:?}", lcs.iter().map(|l| l.label().clone()).collect::<Vec<_>>())));
                ctx.rep.case(&format!("{} lc open refused", inst.desc()), None);
                continue;
            }
        };
        let desc = format!("{} lcs=[{}] queries={}", inst.desc(),
            lcs.iter().map(|l| format!("{}:{}t", l.label(), l.len())).collect::<Vec<_>>().join(","), qs.len());
        let out = check(&mut rng, &lcs, &qs, &ev, &proof);
        if !out.accepted() {
            ctx.rep.expect_fail(&id0, &format!("{}/lc-honest-rejected", S::NAME), &format!("honest combination proof not accepted: {:?}", out), fail_replay(&inst, &id0, ctx.seed, &desc));
        }
        let shared_points = { let pts: std::collections::BTreeSet<_> = qs.iter().map(|q| (q.1).1.clone()).collect(); let labels: std::collections::BTreeSet<_> = qs.iter().map(|q| (q.1).0.clone()).collect(); pts.len() < labels.len() };
        ctx.rep.count(&format!("{}/lc-shared-point-{}", S::NAME, shared_points));
        ctx.rep.case(&desc, Some(format!("{}/lc/{}/{}/{}", S::NAME, nlc, nlabels, shared_points)));
        if !out.accepted() { continue; }
        // (1) claimed value changed — at every (combination, point) of the query set in turn
        {
            let keys: Vec<_> = ev.keys().cloned().collect();
            for k in 0..keys.len() {
                let id = format!("{}/value@{}", id0, k);
                let mut ev2 = ev.clone();
                *ev2.get_mut(&keys[k]).unwrap() += rand_nonzero(&mut rng);
                let o = check(&mut rng, &lcs, &qs, &ev2, &proof);
                if o.accepted() { ctx.rep.expect_fail(&id, &format!("{}/lc-false-accepted/value", S::NAME), &format!("changed combination value accepted (claim {} of {})", k, keys.len()), fail_replay(&inst, &id, ctx.seed, &desc)); }
                ctx.rep.count(&format!("{}/lc-value", S::NAME));
                ctx.rep.case(&format!("{} lc value@{} out={:?}", S::NAME, k, o), Some(format!("{}/lcv/{}/{}", S::NAME, i, k)));
            }
        }
        // (2) verifier-side coefficient / (3) constant term changed
        for which in ["coefficient", "constant"] {
            let id = format!("{}/{}", id0, which);
            // pick a queried LC and a term of the right kind whose change moves the value
            let mut done = false;
            for (li, lc) in lcs.iter().enumerate() {
                if done { break; }
                let queried: Vec<_> = qs.iter().filter(|q| &q.0 == lc.label()).collect();
                if queried.is_empty() { continue; }
                let mut terms: Vec<(Fr, LCTerm)> = lc.iter().cloned().collect();
                let pos = terms.iter().position(|(_, t)| if which == "constant" { t.is_one() } else { !t.is_one() });
                let pos = match pos { Some(p) => p, None => continue };
                if which == "coefficient" {
                    // degree-bounded single-term combinations must keep coefficient one (assert in the code)
                    if let LCTerm::PolyLabel(l) = &terms[pos].1 {
                        let p = inst.polys.iter().find(|p| p.label() == l).unwrap();
                        if p.degree_bound().is_some() { continue; }
                        if queried.iter().all(|q| p.evaluate(&(q.1).1).is_zero()) { continue; }
                    }
                }
                terms[pos].0 += rand_nonzero(&mut rng);
                let mut lcs2 = lcs.clone();
                lcs2[li] = LinearCombination::new(lc.label().clone(), terms);
                let o = check(&mut rng, &lcs2, &qs, &ev, &proof);
                if o.accepted() { ctx.rep.expect_fail(&id, &format!("{}/lc-false-accepted/{}", S::NAME, which), &format!("changed {} accepted", which), fail_replay(&inst, &id, ctx.seed, &desc)); }
                ctx.rep.count(&format!("{}/lc-{}", S::NAME, which));
                ctx.rep.case(&format!("{} lc {} out={:?}", S::NAME, which, o), Some(format!("{}/lc{}/{}", S::NAME, which, i)));
                done = true;
            }
        }
        // (4) transmitted evaluations changed (default implementation only)
        if let Some(evals) = &proof.evals {
            if !evals.is_empty() {
                let id = format!("{}/evals", id0);
                let mut e2 = evals.clone();
                let k = range(&mut rng, 0, e2.len() - 1);
                e2[k] += rand_nonzero(&mut rng);
                let p2 = BatchLCProof { proof: proof.proof.clone(), evals: Some(e2) };
                let o = check(&mut rng, &lcs, &qs, &ev, &p2);
                if o.accepted() { ctx.rep.expect_fail(&id, &format!("{}/lc-false-accepted/evals", S::NAME), "changed transmitted evaluation accepted", fail_replay(&inst, &id, ctx.seed, &desc)); }
                // dropped / surplus evaluations
                let mut e3 = evals.clone(); e3.pop();
                let p3 = BatchLCProof { proof: proof.proof.clone(), evals: Some(e3) };
                let mut ev2 = ev.clone();
                let k0 = ev2.keys().next().cloned().unwrap();
                *ev2.get_mut(&k0).unwrap() += rand_nonzero(&mut rng);
                let o3 = check(&mut rng, &lcs, &qs, &ev2, &p3);
                if o3.accepted() { ctx.rep.expect_fail(&id, &format!("{}/lc-false-accepted/evals-shape", S::NAME), "false combination value accepted with a truncated evaluation list", fail_replay(&inst, &id, ctx.seed, &desc)); }
                ctx.rep.count(&format!("{}/lc-evals", S::NAME));
                ctx.rep.case(&format!("{} lc evals out={:?}/{:?}", S::NAME, o, o3), Some(format!("{}/lce/{}", S::NAME, i)));
            }
        }
        // (5) degree-bound policy: a bounded polynomial mixed with other terms must be refused
        if S::BOUNDS {
            if let Some(bp) = inst.polys.iter().find(|p| p.degree_bound().is_some()) {
                let id = format!("{}/bound-policy", id0);
                let other = inst.polys.iter().find(|p| p.label() != bp.label());
                let mut variants: Vec<(&str, Vec<(Fr, LCTerm)>)> = vec![];
                if let Some(o) = other {
                    variants.push(("mixed", vec![(Fr::one(), LCTerm::PolyLabel(bp.label().clone())), (Fr::rand(&mut rng), LCTerm::PolyLabel(o.label().clone()))]));
                }
                variants.push(("with-constant", vec![(Fr::one(), LCTerm::PolyLabel(bp.label().clone())), (Fr::rand(&mut rng), LCTerm::One)]));
                variants.push(("scaled", vec![(Fr::from(2u64), LCTerm::PolyLabel(bp.label().clone()))]));
                for (vname, terms) in variants {
                    let lc = LinearCombination::new("bad".to_string(), terms);
                    let pt = S::rand_point(&mut rng, &inst.sizes);
                    let mut q = QuerySet::new();
                    q.insert(("bad".to_string(), ("pt".to_string(), pt.clone())));
                    let r = open(&mut rng, &vec![lc.clone()], &q);
                    let answered = matches!(r, Ok(Ok(_)));
                    if answered {
                        ctx.rep.expect_fail(&id, &format!("{}/lc-bound-dropped/{}", S::NAME, vname), "combination that drops an enforced degree bound was opened", fail_replay(&inst, &id, ctx.seed, vname));
                    }
                    ctx.rep.count(&format!("{}/lc-policy-{}", S::NAME, vname));
                    ctx.rep.case(&format!("{} lc policy {} answered={}", S::NAME, vname, answered), Some(format!("{}/lcp/{}/{}", S::NAME, vname, i)));
                }
            }
        }
    }
}

pub fn c06_all(ctx: &mut Ctx) {
    let n = ctx.n(10, 120);
    c06::<Marlin>(ctx, n);
    c06::<Sonic>(ctx, n);
    c06::<Ipa>(ctx, n);
    c06::<Pst13>(ctx, n);
    c06::<Hyrax>(ctx, n.min(40));
    c06::<UniLigero>(ctx, n.min(40));
    c06::<MlLigero>(ctx, n.min(20));
    c06::<Brakedown>(ctx, n.min(20));
}

/// C07 for Hyrax (hiding is unconditional): the row blinding comes from the caller's RNG
pub fn c07_hyrax(ctx: &mut Ctx, n: usize) {
    type S = Hyrax;
    for i in 0..n {
        let id = format!("C07/hyrax/{}", i);
        if !ctx.selected(&id) { continue; }
        let mut rng = rng_for(ctx.seed, "C07/hyrax", i as u64);
        let sizes = S::sizes(&mut rng, ctx.thorough);
        let pp = match <S as Scheme>::PC::setup(1, sizes.num_vars, &mut rng) { Ok(p) => p, Err(_) => continue };
        let (ck, _vk) = <S as Scheme>::PC::trim(&pp, 1, 1, None).unwrap();
        let poly = S::rand_poly(&mut rng, &sizes, 1);
        let lp = LabeledPolynomial::new("p".to_string(), poly, None, None);
        let seed_rng = rng.clone();
        let mut r1 = CountRng::new(seed_rng.clone());
        let c1 = match guarded(|| <S as Scheme>::PC::commit(&ck, [&lp], Some(&mut r1))) { Ok(Ok(x)) => x.0, _ => {
            ctx.rep.expect_fail(&id, "hyrax/hiding-commit-refused", "commit refused", format!("# hyrax commit nv={:?}\n", sizes.num_vars)); continue; } };
        let mut r1b = seed_rng.clone();
        let c1b = <S as Scheme>::PC::commit(&ck, [&lp], Some(&mut r1b)).unwrap().0;
        let mut r2 = rng_for(ctx.seed ^ 0x77, "C07/hyrax/other", i as u64);
        let c2 = <S as Scheme>::PC::commit(&ck, [&lp], Some(&mut r2)).unwrap().0;
        let dim = 1usize << (sizes.num_vars.unwrap() / 2);
        if r1.bytes == 0 {
            ctx.rep.expect_fail(&id, "hyrax/hiding-without-caller-rng", "commit drew nothing from the caller's RNG", format!("# scheme: hyrax\n# case {}\n# seed {}\n", id, ctx.seed));
        }
        if ser(c1[0].commitment()) != ser(c1b[0].commitment()) {
            ctx.rep.expect_fail(&id, "hyrax/same-seed-differs", "same RNG seed gave a different commitment (blinding not taken from the caller's RNG)", format!("# scheme: hyrax\n# case {}\n# seed {}\n# nv {:?} rows {}\n", id, ctx.seed, sizes.num_vars, dim));
        }
        if ser(c1[0].commitment()) == ser(c2[0].commitment()) {
            ctx.rep.expect_fail(&id, "hyrax/other-seed-equal", "independent RNG streams gave the same commitment", format!("# scheme: hyrax\n# case {}\n", id));
        }
        let no = guarded(|| <S as Scheme>::PC::commit(&ck, [&lp], None));
        if matches!(no, Ok(Ok(_))) {
            ctx.rep.expect_fail(&id, "hyrax/missing-rng-answered", "commit without an RNG returned a commitment", format!("# scheme: hyrax\n# case {}\n", id));
        }
        ctx.rep.case(&format!("hyrax hiding nv={:?} rows={} rng-bytes={}", sizes.num_vars, dim, r1.bytes), Some(format!("hyrax/{:?}/{}", sizes.num_vars, i)));
        // proofs: several polynomials opened by ONE `open` call — every proof must carry its own fresh
        // nonce vector and blinders (first messages pairwise distinct, enough RNG consumed), be reproducible
        // from the seed and differ under another seed
        let k = 2 + i % 3;
        let lps: Vec<_> = (0..k).map(|j| LabeledPolynomial::new(format!("q{}", j), S::rand_poly(&mut rng, &sizes, 1), None, None)).collect();
        let mut rc = seed_rng.clone();
        let (coms, sts) = match guarded(|| <S as Scheme>::PC::commit(&ck, &lps, Some(&mut rc))) { Ok(Ok(x)) => x, _ => continue };
        let pt = S::rand_point(&mut rng, &sizes);
        let open_with = |r: &mut dyn ark_std::rand::RngCore| {
            let mut sp = fresh_sponge();
            guarded(|| <S as Scheme>::PC::open(&ck, &lps, &coms, &pt, &mut sp, &sts, Some(r)))
        };
        let mut ro = CountRng::new(seed_rng.clone());
        let pr = match open_with(&mut ro) { Ok(Ok(p)) => p, other => {
            ctx.rep.expect_fail(&id, "hyrax/honest-open-refused", &format!("open refused: {:?}", other.map(|r| r.map(|_| ()).map_err(|e| err_kind(&e)))), format!("# scheme: hyrax\n# case {}\n# seed {}\n", id, ctx.seed));
            continue; } };
        let need = k * (dim + 3) * 31;
        if (ro.bytes as usize) < need {
            ctx.rep.expect_fail(&id, "hyrax/open-too-little-randomness",
                &format!("open of {} polynomials drew {} bytes from the caller's RNG, fewer than {} field elements need", k, ro.bytes, k * (dim + 3)),
                format!("# scheme: hyrax\n# case {}\n# seed {}\n# nv {:?} k {}\n", id, ctx.seed, sizes.num_vars, k));
        }
        for a in 0..pr.len() {
            for b in (a + 1)..pr.len() {
                if pr[a].com_d == pr[b].com_d || pr[a].com_b == pr[b].com_b || pr[a].com_eval == pr[b].com_eval {
                    ctx.rep.expect_fail(&id, "hyrax/proofs-share-nonce",
                        &format!("proofs {} and {} of one open() call share a first-message commitment (nonce reuse)", a, b),
                        format!("# scheme: hyrax\n# case {}\n# seed {}\n# nv {:?} k {}\n", id, ctx.seed, sizes.num_vars, k));
                }
            }
        }
        let mut ro2 = seed_rng.clone();
        let pr_same = open_with(&mut ro2);
        let mut ro3 = rng_for(ctx.seed ^ 0x99, "C07/hyrax/open-other", i as u64);
        let pr_other = open_with(&mut ro3);
        if let (Ok(Ok(ps)), Ok(Ok(po))) = (pr_same, pr_other) {
            if ser(&ps) != ser(&pr) {
                ctx.rep.expect_fail(&id, "hyrax/open-same-seed-differs", "same RNG seed gave different proofs", format!("# scheme: hyrax\n# case {}\n# seed {}\n", id, ctx.seed));
            }
            if (0..pr.len()).any(|a| po[a].com_d == pr[a].com_d || po[a].z == pr[a].z) {
                ctx.rep.expect_fail(&id, "hyrax/open-other-seed-equal", "independent RNG streams gave the same proof components", format!("# scheme: hyrax\n# case {}\n# seed {}\n", id, ctx.seed));
            }
        }
        ctx.rep.case(&format!("hyrax hiding open k={} nv={:?} rng-bytes={}", k, sizes.num_vars, ro.bytes), Some(format!("hyrax-open/{:?}/{}", sizes.num_vars, k)));
    }
}

/// C09: parameters that went through serialization are "the same parameters": keys trimmed from the
/// re-loaded copy equal the original keys byte for byte and interoperate with them in both directions
/// (original prover ↔ re-loaded verifier key, re-loaded prover key ↔ original verifier), on a batch
/// over two point labels.
pub fn c09_reloaded<S: Scheme>(ctx: &mut Ctx, n: usize)
where
    Pt<S>: Clone + Ord + std::fmt::Debug,
    Comm<S>: Clone,
{
    use ark_serialize::{CanonicalDeserialize, CanonicalSerialize};
    for i in 0..n {
        let id = format!("C09/{}-reloaded/{}", S::NAME, i);
        if !ctx.selected(&id) { continue; }
        let mut rng = rng_for(ctx.seed, &format!("C09/{}-reloaded", S::NAME), i as u64);
        let inst: Instance<S> = match guarded(|| instance::<S>(&mut rng, ctx.thorough, 2 + i % 2)) { Ok(Ok(x)) => x, _ => continue };
        let mut bytes = vec![];
        if inst.pp.serialize_compressed(&mut bytes).is_err() { continue; }
        let pp2 = match PP::<S>::deserialize_compressed(&bytes[..]) { Ok(p) => p, Err(_) => {
            ctx.rep.expect_fail(&id, &format!("{}/params-do-not-reload", S::NAME), "serialized universal parameters do not deserialize", fail_replay(&inst, &id, ctx.seed, "reload"));
            continue; } };
        let (ck2, vk2) = match guarded(|| S::PC::trim(&pp2, inst.sizes.supported, inst.shb, inst.bounds.as_deref())) {
            Ok(Ok(x)) => x,
            _ => { ctx.rep.expect_fail(&id, &format!("{}/reloaded-params-trim-refused", S::NAME), "trim of re-loaded parameters refused", fail_replay(&inst, &id, ctx.seed, "reload")); continue; }
        };
        let same = ser(&ck2) == ser(&inst.ck) && ser(&vk2) == ser(&inst.vk);
        let (qs, ev) = query_set::<S>(&mut rng, &inst, 2, true);
        let mut ev_bad = ev.clone();
        if let Some(k) = ev.keys().next().cloned() { *ev_bad.get_mut(&k).unwrap() += rand_nonzero(&mut rng); }
        let inst2 = Instance::<S> { sizes: inst.sizes.clone(), pp: inst.pp.clone(), ck: ck2, vk: vk2, polys: inst.polys.clone(), kinds: inst.kinds.clone(),
            comms: inst.comms.clone(), states: inst.states.clone(), bounds: inst.bounds.clone(), shb: inst.shb };
        let mut outcomes = vec![];
        for (pname, prover) in [("original", &inst), ("reloaded", &inst2)] {
            let mut psp = fresh_sponge();
            let proof = match batch_open::<S>(prover, &qs, &mut psp, &mut rng.clone()) { Ok(p) => p, Err(e) => { outcomes.push(format!("{} prover refused: {}", pname, e)); continue; } };
            for (vname, verifier) in [("original", &inst), ("reloaded", &inst2)] {
                let good = batch_check::<S>(verifier, &inst.comms, &qs, &ev, &proof, &mut fresh_sponge(), &mut rng.clone());
                let bad = batch_check::<S>(verifier, &inst.comms, &qs, &ev_bad, &proof, &mut fresh_sponge(), &mut rng.clone());
                if !good.accepted() || bad.accepted() {
                    outcomes.push(format!("{} prover key / {} verifier key: honest {:?}, tampered {:?}", pname, vname, good, bad));
                }
            }
        }
        if !same || !outcomes.is_empty() {
            ctx.rep.expect_fail(&id, &format!("{}/reloaded-params-do-not-interoperate", S::NAME),
                &format!("keys from re-loaded parameters: same bytes {}; {}", same, outcomes.join("; ")),
                fail_replay(&inst, &id, ctx.seed, "universal parameters serialized and re-loaded before trim"));
        }
        ctx.rep.case(&format!("{} reloaded params interoperate", inst.desc()), Some(format!("{}/reloaded/{}", S::NAME, i)));
    }
}

pub fn c09_reloaded_all(ctx: &mut Ctx) {
    let n = ctx.n(3, 20);
    c09_reloaded::<Marlin>(ctx, n);
    c09_reloaded::<Sonic>(ctx, n);
    c09_reloaded::<Ipa>(ctx, n);
    c09_reloaded::<Pst13>(ctx, n);
    c09_reloaded::<Hyrax>(ctx, n);
}

/// The statement challenges a verifier squeezes with a truncated size are modelled (and, in every proof about
/// exceptional challenge values, counted) as 128-bit values.  A verifier that asks for fewer bits is reported;
/// when the size is small enough to search (≤ 22 bits) the search is carried out: a transcript prefix whose
/// first challenge is ZERO, a single honest opening under that prefix, and the claim `value + 1` — which a
/// zero challenge makes acceptable — as the concrete failing input.
fn short_challenges<S: Scheme>(
    ctx: &mut Ctx,
    prop: &str,
    inst: &Instance<S>,
    qs: &QuerySet<Pt<S>>,
    ev: &Evaluations<Pt<S>, Fr>,
    proof: &BProof<S>,
    rng: &mut Rng,
) where
    Pt<S>: Clone + Ord + std::fmt::Debug,
{
    use ark_crypto_primitives::sponge::{CryptographicSponge, FieldElementSize};
    let id = format!("{}/{}/challenge-size", prop, S::NAME);
    let mut hsp = fresh_sponge();
    let _ = batch_check::<S>(inst, &inst.comms, qs, ev, proof, &mut hsp, &mut rng.clone());
    let mut bits: Vec<usize> = vec![];
    for e in &hsp.log {
        if let Event::SqueezeFe(sizes, _) = e {
            bits.extend(sizes.iter().flatten().cloned());
        }
    }
    let minbits = match bits.iter().min() {
        Some(b) => *b,
        None => return, // no truncated squeeze: nothing to compare
    };
    ctx.rep.case(&format!("{} statement challenges: {} truncated squeezes, min {} bits", S::NAME, bits.len(), minbits), Some(format!("{}/challenge-bits/{}", S::NAME, minbits)));
    if minbits >= 128 {
        return;
    }
    let txt = format!("# scheme: {}\n# case: {}\n# seed: {}\n# the verifier squeezes statement challenges of {} bits; the model and every exceptional-set theorem count 128-bit challenges\n", S::NAME, id, ctx.seed, minbits);
    if minbits > 22 {
        ctx.rep.model_disagreements.push(Failure {
            case_id: id.clone(),
            signature: format!("{}/challenge-size", S::NAME),
            what: format!("statement challenges of {} bits (model: 128)", minbits),
            replay: txt,
        });
        return;
    }
    // search a prefix with a zero first challenge
    let mut found = None;
    for ctr in 0u64..(12u64 << minbits) {
        let mut sp = fresh_sponge();
        sp.absorb(&ctr.to_le_bytes().to_vec());
        let c: Fr = sp.inner.squeeze_field_elements_with_sizes(&[FieldElementSize::Truncated(minbits)])[0];
        if c.is_zero() {
            found = Some(ctr);
            break;
        }
    }
    let ctr = match found {
        Some(c) => c,
        None => {
            ctx.rep.model_disagreements.push(Failure {
                case_id: id.clone(),
                signature: format!("{}/challenge-size", S::NAME),
                what: format!("statement challenges of {} bits (model: 128); no zero-challenge prefix found in {} trials", minbits, 12u64 << minbits),
                replay: txt,
            });
            return;
        }
    };
    // one unbounded polynomial, honest single opening under the prefix, claim value + 1
    let k = match inst.polys.iter().position(|p| p.degree_bound().is_none()) {
        Some(k) => k,
        None => 0,
    };
    let z = S::rand_point(rng, &inst.sizes);
    let v = inst.polys[k].evaluate(&z);
    let mk = || {
        let mut sp = fresh_sponge();
        sp.absorb(&ctr.to_le_bytes().to_vec());
        sp
    };
    let opened = guarded(|| {
        let mut sp = mk();
        S::PC::open(&inst.ck, [&inst.polys[k]], [&inst.comms[k]], &z, &mut sp, [&inst.states[k]], Some(&mut rng.clone()))
    });
    let pf = match opened {
        Ok(Ok(p)) => p,
        _ => return,
    };
    let out = Outcome::from(guarded(|| {
        let mut sp = mk();
        S::PC::check(&inst.vk, [&inst.comms[k]], &z, [v + Fr::one()], &pf, &mut sp, Some(&mut rng.clone()))
    }));
    if out.accepted() {
        ctx.rep.expect_fail(&id, &format!("{}/false-claim-accepted/zero-challenge-prefix", S::NAME),
            &format!("with the transcript prefix {} (found in {} trials: the statement challenges have only {} bits) the honest opening proof is accepted for value + 1", ctr, ctr + 1, minbits),
            format!("{}# sponge: fresh, then absorb the 8 little-endian bytes of {}; polynomial {} opened at {:?}; claimed value = true value + 1\n# rerun: .build/cargo/debug/pcv-harness {} --seed {} --only {}\n", txt, ctr, inst.polys[k].label(), z, prop, ctx.seed, id));
    } else {
        ctx.rep.model_disagreements.push(Failure {
            case_id: id.clone(),
            signature: format!("{}/challenge-size", S::NAME),
            what: format!("statement challenges of {} bits (model: 128); zero-challenge prefix {} did not make value+1 acceptable ({:?})", minbits, ctr, out),
            replay: txt,
        });
    }
}

/// Completeness where the hiding bound EXCEEDS the supported degree (a low-degree polynomial protected for many
/// queries): the keys are trimmed for it (`supported_hiding_bound` is independent of `supported_degree`), commit
/// answers, so the honest opening — single and batched — must be accepted.  KZG-type schemes (the blinding
/// polynomial lives on the separate `powers_of_gamma_g` table).
fn hiding_above_degree<S: Scheme>(ctx: &mut Ctx)
where
    Pt<S>: Clone + Ord + std::fmt::Debug,
{
    if !(S::NAME == "marlin" || S::NAME == "sonic") {
        return;
    }
    for i in 0..ctx.n(4, 16) {
        let id = format!("C01/{}/hiding-above-degree/{}", S::NAME, i);
        if !ctx.selected(&id) {
            continue;
        }
        let mut rng = rng_for(ctx.seed, &format!("C01/{}/hiding-above-degree", S::NAME), i as u64);
        let supported = 1 + i % 4;
        let h = supported + 2 + i % 5;
        let max_degree = h + 3;
        let sizes = Sizes { max_degree, supported, num_vars: None };
        let r = guarded(|| -> Result<(bool, bool), String> {
            let pp = S::PC::setup(max_degree, None, &mut rng).map_err(|e| format!("setup {:?}", e))?;
            let (ck, vk) = S::PC::trim(&pp, supported, h, None).map_err(|e| format!("trim {:?}", e))?;
            let poly = S::rand_poly(&mut rng, &sizes, supported);
            let lp = LabeledPolynomial::new("p".to_string(), poly, None, Some(h));
            let (comms, sts) = S::PC::commit(&ck, [&lp], Some(&mut rng)).map_err(|e| format!("commit {:?}", e))?;
            let z = S::rand_point(&mut rng, &sizes);
            let v = lp.evaluate(&z);
            let mut sp = fresh_sponge();
            let pf = S::PC::open(&ck, [&lp], &comms, &z, &mut sp, &sts, Some(&mut rng)).map_err(|e| format!("open {:?}", e))?;
            let mut sp = fresh_sponge();
            let single = S::PC::check(&vk, &comms, &z, [v], &pf, &mut sp, Some(&mut rng)).map_err(|e| format!("check {:?}", e))?;
            let mut qs = QuerySet::new();
            qs.insert(("p".to_string(), ("z".to_string(), z.clone())));
            let mut ev = Evaluations::new();
            ev.insert(("p".to_string(), z.clone()), v);
            let mut sp = fresh_sponge();
            let bp = S::PC::batch_open(&ck, [&lp], &comms, &qs, &mut sp, &sts, Some(&mut rng)).map_err(|e| format!("batch_open {:?}", e))?;
            let mut sp = fresh_sponge();
            let batch = S::PC::batch_check(&vk, &comms, &qs, &ev, &bp, &mut sp, &mut rng).map_err(|e| format!("batch_check {:?}", e))?;
            Ok((single, batch))
        });
        match &r {
            Ok(Ok((true, true))) => {}
            other => ctx.rep.expect_fail(&id, &format!("{}/honest-rejected/hiding-above-degree", S::NAME),
                &format!("honest opening with hiding bound {} above the supported degree {} not accepted: {:?}", h, supported, other),
                format!("# scheme: {}\n# case: {}\n# seed: {}\n# setup({}), trim(pp, {}, {}, None), polynomial of degree {} with hiding bound {}\n# rerun: .build/cargo/debug/pcv-harness C01 --seed {} --only {}\n", S::NAME, id, ctx.seed, max_degree, supported, h, supported, h, ctx.seed, id)),
        }
        ctx.rep.case(&format!("{} hiding {} above degree {} -> {:?}", S::NAME, h, supported, r.as_ref().map_err(|e| e.chars().take(40).collect::<String>())), Some(format!("{}/hiding-above-degree/{}/{}", S::NAME, supported, h)));
    }
}
