//! Trait-level harness: every `PolynomialCommitment` implementation of the crate driven through
//! the public trait API (honest transcripts, statement mutations, batches, linear combinations,
//! histories).  These runs compare the implementation with the *property expectation*
//! (must-accept / must-refuse / equal decisions); model-backed runs live in the per-scheme modules.
use crate::common::*;
use crate::Ctx;
use ark_bls12_381::{Bls12_381, Fr, G1Affine};
use ark_crypto_primitives::{
    crh::{sha256::Sha256, CRHScheme, TwoToOneCRHScheme},
    merkle_tree::{ByteDigestConverter, Config},
};
use ark_ff::{One, PrimeField, UniformRand, Zero};
use ark_poly::{
    multivariate::{SparsePolynomial, SparseTerm, Term},
    univariate::DensePolynomial,
    DenseMVPolynomial, DenseMultilinearExtension, DenseUVPolynomial, MultilinearExtension,
    Polynomial, SparseMultilinearExtension,
};
use ark_poly_commit::{
    hyrax::HyraxPC,
    ipa_pc::InnerProductArgPC,
    linear_codes::{LinearCodePCS, MultilinearBrakedown, MultilinearLigero, UnivariateLigero},
    marlin_pc::MarlinKZG10,
    marlin_pst13_pc::MarlinPST13,
    sonic_pc::SonicKZG10,
    Error, Evaluations, LabeledCommitment, LabeledPolynomial, LinearCombination,
    PolynomialCommitment, QuerySet,
};
use ark_serialize::CanonicalSerialize;
use ark_std::rand::RngCore;
use blake2::Blake2s256;
use std::borrow::Borrow;
use std::marker::PhantomData;

pub type UniPoly = DensePolynomial<Fr>;

// ------------------------------------------------------------------------------------------------
// hashers for the linear-code schemes (same as the crate's tests / bench templates)
// ------------------------------------------------------------------------------------------------
pub struct LeafIdentityHasher;
impl CRHScheme for LeafIdentityHasher {
    type Input = Vec<u8>;
    type Output = Vec<u8>;
    type Parameters = ();
    fn setup<R: RngCore>(_: &mut R) -> Result<Self::Parameters, ark_crypto_primitives::Error> {
        Ok(())
    }
    fn evaluate<T: Borrow<Self::Input>>(
        _: &Self::Parameters,
        input: T,
    ) -> Result<Self::Output, ark_crypto_primitives::Error> {
        Ok(input.borrow().to_vec())
    }
}
pub struct FieldToBytesColHasher<F: PrimeField, D: digest::Digest> {
    _p: PhantomData<(F, D)>,
}
impl<F: PrimeField, D: digest::Digest> CRHScheme for FieldToBytesColHasher<F, D> {
    type Input = Vec<F>;
    type Output = Vec<u8>;
    type Parameters = ();
    fn setup<R: RngCore>(_: &mut R) -> Result<Self::Parameters, ark_crypto_primitives::Error> {
        Ok(())
    }
    fn evaluate<T: Borrow<Self::Input>>(
        _: &Self::Parameters,
        input: T,
    ) -> Result<Self::Output, ark_crypto_primitives::Error> {
        let mut dig = D::new();
        let mut buf = vec![];
        input.borrow().serialize_compressed(&mut buf).unwrap();
        dig.update(buf);
        Ok(dig.finalize().to_vec())
    }
}
pub struct MTConfig;
impl Config for MTConfig {
    type Leaf = Vec<u8>;
    type LeafDigest = <LeafIdentityHasher as CRHScheme>::Output;
    type LeafInnerDigestConverter = ByteDigestConverter<Self::LeafDigest>;
    type InnerDigest = <Sha256 as TwoToOneCRHScheme>::Output;
    type LeafHash = LeafIdentityHasher;
    type TwoToOneHash = Sha256;
}
pub type ColH = FieldToBytesColHasher<Fr, Blake2s256>;

pub type MarlinPC = MarlinKZG10<Bls12_381, UniPoly>;
pub type SonicPC = SonicKZG10<Bls12_381, UniPoly>;
pub type IpaPC = InnerProductArgPC<G1Affine, Blake2s256, UniPoly>;
pub type MvPoly = SparsePolynomial<Fr, SparseTerm>;
pub type Pst13PC = MarlinPST13<Bls12_381, MvPoly>;
pub type DenseML = DenseMultilinearExtension<Fr>;
pub type SparseML = SparseMultilinearExtension<Fr>;
pub type HyraxScheme = HyraxPC<G1Affine, DenseML>;
pub type UniLigeroPC =
    LinearCodePCS<UnivariateLigero<Fr, MTConfig, UniPoly, ColH>, Fr, UniPoly, MTConfig, ColH>;
pub type MlLigeroPC =
    LinearCodePCS<MultilinearLigero<Fr, MTConfig, SparseML, ColH>, Fr, SparseML, MTConfig, ColH>;
pub type BrakedownPC =
    LinearCodePCS<MultilinearBrakedown<Fr, MTConfig, SparseML, ColH>, Fr, SparseML, MTConfig, ColH>;

#[derive(Clone, Debug)]
pub struct Sizes {
    pub max_degree: usize,
    pub supported: usize,
    pub num_vars: Option<usize>,
}

pub trait Scheme: 'static {
    type P: Polynomial<Fr> + Clone;
    type PC: PolynomialCommitment<Fr, Self::P, Error = Error>;
    const NAME: &'static str;
    const BOUNDS: bool;
    const HIDING: bool;
    /// hiding bound 0 is refused (PST13)
    const HIDING_MIN: usize = 0;
    fn sizes(rng: &mut Rng, thorough: bool) -> Sizes;
    fn rand_poly(rng: &mut Rng, s: &Sizes, degree: usize) -> Self::P;
    /// zero / constant polynomials in the scheme's polynomial type (None = not expressible)
    fn special_poly(rng: &mut Rng, s: &Sizes, kind: usize) -> Option<(Self::P, &'static str)>;
    fn rand_point(rng: &mut Rng, s: &Sizes) -> <Self::P as Polynomial<Fr>>::Point;
    fn is_constant(p: &Self::P) -> bool;
}

type Pt<S> = <<S as Scheme>::P as Polynomial<Fr>>::Point;
type Comm<S> = <<S as Scheme>::PC as PolynomialCommitment<Fr, <S as Scheme>::P>>::Commitment;
type State<S> = <<S as Scheme>::PC as PolynomialCommitment<Fr, <S as Scheme>::P>>::CommitmentState;
type CK<S> = <<S as Scheme>::PC as PolynomialCommitment<Fr, <S as Scheme>::P>>::CommitterKey;
type VK<S> = <<S as Scheme>::PC as PolynomialCommitment<Fr, <S as Scheme>::P>>::VerifierKey;
type PP<S> = <<S as Scheme>::PC as PolynomialCommitment<Fr, <S as Scheme>::P>>::UniversalParams;
type BProof<S> = <<S as Scheme>::PC as PolynomialCommitment<Fr, <S as Scheme>::P>>::BatchProof;
type SProof<S> = <<S as Scheme>::PC as PolynomialCommitment<Fr, <S as Scheme>::P>>::Proof;

fn uni_special(rng: &mut Rng, kind: usize) -> Option<(UniPoly, &'static str)> {
    match kind {
        0 => Some((UniPoly::from_coefficients_vec(vec![]), "zero")),
        _ => Some((UniPoly::from_coefficients_vec(vec![Fr::rand(rng)]), "constant")),
    }
}

pub struct Marlin;
impl Scheme for Marlin {
    type P = UniPoly;
    type PC = MarlinPC;
    const NAME: &'static str = "marlin";
    const BOUNDS: bool = true;
    const HIDING: bool = true;
    fn sizes(rng: &mut Rng, thorough: bool) -> Sizes {
        let max_degree = range(rng, 2, if thorough { 64 } else { 24 });
        Sizes { max_degree, supported: range(rng, 1, max_degree), num_vars: None }
    }
    fn rand_poly(rng: &mut Rng, _: &Sizes, degree: usize) -> UniPoly {
        UniPoly::rand(degree, rng)
    }
    fn special_poly(rng: &mut Rng, _: &Sizes, kind: usize) -> Option<(UniPoly, &'static str)> {
        uni_special(rng, kind)
    }
    fn rand_point(rng: &mut Rng, _: &Sizes) -> Fr {
        Fr::rand(rng)
    }
    fn is_constant(p: &UniPoly) -> bool {
        p.coeffs.len() <= 1
    }
}
pub struct Sonic;
impl Scheme for Sonic {
    type P = UniPoly;
    type PC = SonicPC;
    const NAME: &'static str = "sonic";
    const BOUNDS: bool = true;
    const HIDING: bool = true;
    fn sizes(rng: &mut Rng, thorough: bool) -> Sizes {
        Marlin::sizes(rng, thorough)
    }
    fn rand_poly(rng: &mut Rng, _: &Sizes, degree: usize) -> UniPoly {
        UniPoly::rand(degree, rng)
    }
    fn special_poly(rng: &mut Rng, _: &Sizes, kind: usize) -> Option<(UniPoly, &'static str)> {
        uni_special(rng, kind)
    }
    fn rand_point(rng: &mut Rng, _: &Sizes) -> Fr {
        Fr::rand(rng)
    }
    fn is_constant(p: &UniPoly) -> bool {
        p.coeffs.len() <= 1
    }
}
pub struct Ipa;
impl Scheme for Ipa {
    type P = UniPoly;
    type PC = IpaPC;
    const NAME: &'static str = "ipa";
    const BOUNDS: bool = true;
    const HIDING: bool = true;
    fn sizes(rng: &mut Rng, thorough: bool) -> Sizes {
        let max_degree = range(rng, 2, if thorough { 64 } else { 20 });
        Sizes { max_degree, supported: range(rng, 1, max_degree), num_vars: None }
    }
    fn rand_poly(rng: &mut Rng, _: &Sizes, degree: usize) -> UniPoly {
        UniPoly::rand(degree, rng)
    }
    fn special_poly(rng: &mut Rng, _: &Sizes, kind: usize) -> Option<(UniPoly, &'static str)> {
        uni_special(rng, kind)
    }
    fn rand_point(rng: &mut Rng, _: &Sizes) -> Fr {
        Fr::rand(rng)
    }
    fn is_constant(p: &UniPoly) -> bool {
        p.coeffs.len() <= 1
    }
}
pub struct Pst13;
impl Scheme for Pst13 {
    type P = MvPoly;
    type PC = Pst13PC;
    const NAME: &'static str = "pst13";
    const BOUNDS: bool = false;
    const HIDING: bool = true;
    const HIDING_MIN: usize = 1;
    fn sizes(rng: &mut Rng, thorough: bool) -> Sizes {
        let nv = range(rng, 1, if thorough { 5 } else { 3 });
        let max_degree = range(rng, 2, if thorough { 6 } else { 4 });
        Sizes { max_degree, supported: range(rng, 1, max_degree), num_vars: Some(nv) }
    }
    fn rand_poly(rng: &mut Rng, s: &Sizes, degree: usize) -> MvPoly {
        let nv = s.num_vars.unwrap();
        if coin(rng) {
            MvPoly::rand(degree, nv, rng)
        } else {
            // random sparse polynomial with genuinely mixed monomials of total degree <= degree
            let nterms = range(rng, 1, 6);
            let mut terms = vec![];
            for _ in 0..nterms {
                let mut left = range(rng, 0, degree);
                let mut t = vec![];
                for v in 0..nv {
                    if left == 0 {
                        break;
                    }
                    let e = range(rng, 0, left);
                    if e > 0 {
                        t.push((v, e));
                        left -= e;
                    }
                }
                terms.push((Fr::rand(rng), SparseTerm::new(t)));
            }
            MvPoly::from_coefficients_vec(nv, terms)
        }
    }
    fn special_poly(rng: &mut Rng, s: &Sizes, kind: usize) -> Option<(MvPoly, &'static str)> {
        let nv = s.num_vars.unwrap();
        match kind {
            0 => Some((MvPoly::from_coefficients_vec(nv, vec![]), "zero")),
            _ => Some((
                MvPoly::from_coefficients_vec(nv, vec![(Fr::rand(rng), SparseTerm::new(vec![]))]),
                "constant",
            )),
        }
    }
    fn rand_point(rng: &mut Rng, s: &Sizes) -> Vec<Fr> {
        (0..s.num_vars.unwrap()).map(|_| Fr::rand(rng)).collect()
    }
    fn is_constant(p: &MvPoly) -> bool {
        p.terms().iter().all(|(c, t)| c.is_zero() || t.is_constant())
    }
}
pub struct Hyrax;
impl Scheme for Hyrax {
    type P = DenseML;
    type PC = HyraxScheme;
    const NAME: &'static str = "hyrax";
    const BOUNDS: bool = false;
    const HIDING: bool = false; // hiding is unconditional and internal; bounds are ignored
    fn sizes(rng: &mut Rng, thorough: bool) -> Sizes {
        let nv = 2 * range(rng, 1, if thorough { 4 } else { 3 });
        Sizes { max_degree: 1, supported: 1, num_vars: Some(nv) }
    }
    fn rand_poly(rng: &mut Rng, s: &Sizes, _: usize) -> DenseML {
        DenseML::rand(s.num_vars.unwrap(), rng)
    }
    fn special_poly(rng: &mut Rng, s: &Sizes, kind: usize) -> Option<(DenseML, &'static str)> {
        let nv = s.num_vars.unwrap();
        match kind {
            0 => Some((DenseML::from_evaluations_vec(nv, vec![Fr::zero(); 1 << nv]), "zero")),
            _ => {
                let c = Fr::rand(rng);
                Some((DenseML::from_evaluations_vec(nv, vec![c; 1 << nv]), "constant"))
            }
        }
    }
    fn rand_point(rng: &mut Rng, s: &Sizes) -> Vec<Fr> {
        (0..s.num_vars.unwrap()).map(|_| Fr::rand(rng)).collect()
    }
    fn is_constant(p: &DenseML) -> bool {
        p.evaluations.iter().all(|e| *e == p.evaluations[0])
    }
}
pub struct UniLigero;
impl Scheme for UniLigero {
    type P = UniPoly;
    type PC = UniLigeroPC;
    const NAME: &'static str = "uni-ligero";
    const BOUNDS: bool = false;
    const HIDING: bool = false;
    fn sizes(rng: &mut Rng, thorough: bool) -> Sizes {
        let max_degree = range(rng, 2, if thorough { 300 } else { 60 });
        Sizes { max_degree, supported: max_degree, num_vars: None }
    }
    fn rand_poly(rng: &mut Rng, _: &Sizes, degree: usize) -> UniPoly {
        UniPoly::rand(degree, rng)
    }
    fn special_poly(rng: &mut Rng, _: &Sizes, kind: usize) -> Option<(UniPoly, &'static str)> {
        match kind {
            0 => Some((UniPoly::from_coefficients_vec(vec![]), "zero")),
            _ => Some((UniPoly::from_coefficients_vec(vec![Fr::rand(rng)]), "constant")),
        }
    }
    fn rand_point(rng: &mut Rng, _: &Sizes) -> Fr {
        Fr::rand(rng)
    }
    fn is_constant(p: &UniPoly) -> bool {
        p.coeffs.len() <= 1
    }
}
fn sparse_ml_special(rng: &mut Rng, s: &Sizes, kind: usize) -> Option<(SparseML, &'static str)> {
    let nv = s.num_vars.unwrap();
    match kind {
        0 => Some((SparseML::from_evaluations(nv, &Vec::<(usize, Fr)>::new()), "zero")),
        _ => {
            let c = Fr::rand(rng);
            let evs: Vec<(usize, Fr)> = (0..(1usize << nv)).map(|i| (i, c)).collect();
            Some((SparseML::from_evaluations(nv, &evs), "constant"))
        }
    }
}
fn sparse_ml_constant(p: &SparseML) -> bool {
    let d = p.to_dense_multilinear_extension();
    d.evaluations.iter().all(|e| *e == d.evaluations[0])
}
pub struct MlLigero;
impl Scheme for MlLigero {
    type P = SparseML;
    type PC = MlLigeroPC;
    const NAME: &'static str = "ml-ligero";
    const BOUNDS: bool = false;
    const HIDING: bool = false;
    fn sizes(rng: &mut Rng, thorough: bool) -> Sizes {
        let nv = range(rng, 2, if thorough { 9 } else { 6 });
        Sizes { max_degree: 1, supported: 1, num_vars: Some(nv) }
    }
    fn rand_poly(rng: &mut Rng, s: &Sizes, _: usize) -> SparseML {
        SparseML::rand(s.num_vars.unwrap(), rng)
    }
    fn special_poly(rng: &mut Rng, s: &Sizes, kind: usize) -> Option<(SparseML, &'static str)> {
        sparse_ml_special(rng, s, kind)
    }
    fn rand_point(rng: &mut Rng, s: &Sizes) -> Vec<Fr> {
        (0..s.num_vars.unwrap()).map(|_| Fr::rand(rng)).collect()
    }
    fn is_constant(p: &SparseML) -> bool {
        sparse_ml_constant(p)
    }
}
pub struct Brakedown;
impl Scheme for Brakedown {
    type P = SparseML;
    type PC = BrakedownPC;
    const NAME: &'static str = "brakedown";
    const BOUNDS: bool = false;
    const HIDING: bool = false;
    fn sizes(rng: &mut Rng, thorough: bool) -> Sizes {
        let nv = range(rng, 3, if thorough { 9 } else { 6 });
        Sizes { max_degree: 1, supported: 1, num_vars: Some(nv) }
    }
    fn rand_poly(rng: &mut Rng, s: &Sizes, _: usize) -> SparseML {
        SparseML::rand(s.num_vars.unwrap(), rng)
    }
    fn special_poly(rng: &mut Rng, s: &Sizes, kind: usize) -> Option<(SparseML, &'static str)> {
        sparse_ml_special(rng, s, kind)
    }
    fn rand_point(rng: &mut Rng, s: &Sizes) -> Vec<Fr> {
        (0..s.num_vars.unwrap()).map(|_| Fr::rand(rng)).collect()
    }
    fn is_constant(p: &SparseML) -> bool {
        sparse_ml_constant(p)
    }
}

// ------------------------------------------------------------------------------------------------
// instances
// ------------------------------------------------------------------------------------------------

pub struct Instance<S: Scheme> {
    pub sizes: Sizes,
    pub pp: PP<S>,
    pub ck: CK<S>,
    pub vk: VK<S>,
    pub polys: Vec<LabeledPolynomial<Fr, S::P>>,
    pub kinds: Vec<&'static str>,
    pub comms: Vec<LabeledCommitment<Comm<S>>>,
    pub states: Vec<State<S>>,
    pub bounds: Option<Vec<usize>>,
}

impl<S: Scheme> Instance<S> {
    pub fn desc(&self) -> String {
        format!(
            "{} D={} s={} nv={:?} polys=[{}]",
            S::NAME,
            self.sizes.max_degree,
            self.sizes.supported,
            self.sizes.num_vars,
            self.polys
                .iter()
                .zip(&self.kinds)
                .map(|(p, k)| format!(
                    "{}:{}:deg{}:b{:?}:h{:?}",
                    p.label(),
                    k,
                    p.degree(),
                    p.degree_bound(),
                    p.hiding_bound()
                ))
                .collect::<Vec<_>>()
                .join(" ")
        )
    }
}

/// Build keys, `npoly` labelled polynomials (structured kinds) and their commitments.
pub fn instance<S: Scheme>(rng: &mut Rng, thorough: bool, npoly: usize) -> Result<Instance<S>, String> {
    let sizes = S::sizes(rng, thorough);
    let pp = S::PC::setup(sizes.max_degree, sizes.num_vars, rng).map_err(|e| format!("setup: {:?}", e))?;
    let mut polys = vec![];
    let mut kinds = vec![];
    let mut bounds: Vec<usize> = vec![];
    for i in 0..npoly {
        let label = format!("p{}", i);
        let pick = range(rng, 0, 9);
        let (poly, kind): (S::P, &'static str) = if pick < 2 {
            match S::special_poly(rng, &sizes, pick) {
                Some(x) => x,
                None => {
                    let d = range(rng, 1, sizes.supported);
                    (S::rand_poly(rng, &sizes, d), "dense")
                }
            }
        } else if pick == 2 {
            (S::rand_poly(rng, &sizes, sizes.supported), "max-degree")
        } else {
            let d = range(rng, 1, sizes.supported);
            (S::rand_poly(rng, &sizes, d), "dense")
        };
        let deg = poly.degree();
        let bound = if S::BOUNDS && coin(rng) {
            let b = range(rng, deg.max(1), sizes.supported);
            bounds.push(b);
            Some(b)
        } else {
            None
        };
        let hiding = if S::HIDING && coin(rng) {
            let hi = bound.unwrap_or(sizes.supported).min(sizes.supported).max(1);
            Some(range(rng, S::HIDING_MIN.max(1).min(hi), hi))
        } else {
            None
        };
        polys.push(LabeledPolynomial::new(label, poly, bound, hiding));
        kinds.push(kind);
    }
    let bounds_opt = if S::BOUNDS && (!bounds.is_empty() || coin(rng)) { Some(bounds) } else { None };
    let (ck, vk) = S::PC::trim(&pp, sizes.supported, sizes.supported, bounds_opt.as_deref())
        .map_err(|e| format!("trim: {:?}", e))?;
    let (comms, states) = S::PC::commit(&ck, &polys, Some(rng)).map_err(|e| format!("commit: {:?}", e))?;
    Ok(Instance { sizes, pp, ck, vk, polys, kinds, comms, states, bounds: bounds_opt })
}

#[derive(Clone, Debug, PartialEq)]
pub enum Outcome {
    Accept,
    Reject,
    Refuse(String),
}
impl Outcome {
    pub fn accepted(&self) -> bool {
        matches!(self, Outcome::Accept)
    }
    pub fn from(r: Result<Result<bool, Error>, String>) -> Outcome {
        match r {
            Ok(Ok(true)) => Outcome::Accept,
            Ok(Ok(false)) => Outcome::Reject,
            Ok(Err(e)) => Outcome::Refuse(err_kind(&e)),
            Err(a) => Outcome::Refuse(a),
        }
    }
}

/// A query set with `nlabels` point labels; some labels may share a point value.
pub fn query_set<S: Scheme>(
    rng: &mut Rng,
    inst: &Instance<S>,
    nlabels: usize,
    share_points: bool,
) -> (QuerySet<Pt<S>>, Evaluations<Pt<S>, Fr>)
where
    Pt<S>: Clone + Ord + std::fmt::Debug,
{
    let mut qs = QuerySet::new();
    let mut ev = Evaluations::new();
    let mut points: Vec<Pt<S>> = vec![];
    for l in 0..nlabels {
        let pt = if share_points && l > 0 && coin(rng) {
            points[range(rng, 0, points.len() - 1)].clone()
        } else {
            S::rand_point(rng, &inst.sizes)
        };
        points.push(pt.clone());
        let plabel = format!("pt{}", l);
        let mut any = false;
        for (i, p) in inst.polys.iter().enumerate() {
            if coin(rng) || (!any && i + 1 == inst.polys.len()) {
                any = true;
                qs.insert((p.label().clone(), (plabel.clone(), pt.clone())));
                ev.insert((p.label().clone(), pt.clone()), p.evaluate(&pt));
            }
        }
    }
    (qs, ev)
}

pub fn fresh_sponge() -> LogSponge {
    LogSponge::fresh()
}

pub fn batch_open<S: Scheme>(
    inst: &Instance<S>,
    qs: &QuerySet<Pt<S>>,
    sponge: &mut LogSponge,
    rng: &mut Rng,
) -> Result<BProof<S>, String>
where
    Pt<S>: Clone + Ord,
{
    match guarded(|| {
        S::PC::batch_open(&inst.ck, &inst.polys, &inst.comms, qs, sponge, &inst.states, Some(rng))
    }) {
        Ok(Ok(p)) => Ok(p),
        Ok(Err(e)) => Err(err_kind(&e)),
        Err(a) => Err(a),
    }
}

pub fn batch_check<S: Scheme>(
    inst: &Instance<S>,
    comms: &[LabeledCommitment<Comm<S>>],
    qs: &QuerySet<Pt<S>>,
    ev: &Evaluations<Pt<S>, Fr>,
    proof: &BProof<S>,
    sponge: &mut LogSponge,
    rng: &mut Rng,
) -> Outcome
where
    Pt<S>: Clone + Ord,
{
    Outcome::from(guarded(|| S::PC::batch_check(&inst.vk, comms, qs, ev, proof, sponge, rng)))
}

/// group a query set as the library does (by point label, sorted; polynomial labels sorted)
pub fn group<T: Clone + Ord>(qs: &QuerySet<T>) -> Vec<(String, T, Vec<String>)> {
    let mut m: std::collections::BTreeMap<String, (T, std::collections::BTreeSet<String>)> =
        std::collections::BTreeMap::new();
    for (label, (pl, pt)) in qs.iter() {
        m.entry(pl.clone())
            .or_insert((pt.clone(), std::collections::BTreeSet::new()))
            .1
            .insert(label.clone());
    }
    m.into_iter().map(|(k, (pt, ls))| (k, pt, ls.into_iter().collect())).collect()
}

/// individual `check` calls in the library's grouping order on one sponge: the reference for C05
pub fn individual_checks<S: Scheme>(
    inst: &Instance<S>,
    comms: &[LabeledCommitment<Comm<S>>],
    qs: &QuerySet<Pt<S>>,
    ev: &Evaluations<Pt<S>, Fr>,
    proofs: &[SProof<S>],
    sponge: &mut LogSponge,
    rng: &mut Rng,
) -> Vec<Outcome>
where
    Pt<S>: Clone + Ord,
{
    let mut out = vec![];
    for ((_, pt, labels), proof) in group(qs).into_iter().zip(proofs.iter()) {
        let cs: Vec<&LabeledCommitment<Comm<S>>> = labels
            .iter()
            .filter_map(|l| comms.iter().find(|c| c.label() == l))
            .collect();
        let vs: Vec<Fr> = labels
            .iter()
            .filter_map(|l| ev.get(&(l.clone(), pt.clone())).cloned())
            .collect();
        if cs.len() != labels.len() || vs.len() != labels.len() {
            out.push(Outcome::Refuse("missing".into()));
            continue;
        }
        let o = Outcome::from(guarded(|| {
            S::PC::check(&inst.vk, cs, &pt, vs, proof, sponge, Some(rng))
        }));
        out.push(o);
    }
    out
}

fn shuffle<T>(rng: &mut Rng, v: &mut Vec<T>) {
    for i in (1..v.len()).rev() {
        let j = range(rng, 0, i);
        v.swap(i, j);
    }
}

pub fn fail_replay<S: Scheme>(inst: &Instance<S>, id: &str, seed: u64, extra: &str) -> String {
    format!(
        "# scheme: {}\n# case: {}\n# seed: {}\n# instance: {}\n# {}\n# rerun: .build/cargo/debug/pcv-harness {} --seed {} --only {}\n",
        S::NAME,
        id,
        seed,
        inst.desc(),
        extra,
        id.split('/').next().unwrap_or(""),
        seed,
        id
    )
}

// ------------------------------------------------------------------------------------------------
// C01 at trait level: honest batches accepted; permutation invariance
// ------------------------------------------------------------------------------------------------
pub fn c01<S: Scheme>(ctx: &mut Ctx, n: usize)
where
    Pt<S>: Clone + Ord + std::fmt::Debug,
    SProof<S>: Clone,
    Comm<S>: Clone,
    State<S>: Clone,
{
    for i in 0..n {
        let id = format!("C01/{}/{}", S::NAME, i);
        if !ctx.selected(&id) {
            continue;
        }
        let mut rng = rng_for(ctx.seed, &format!("C01/{}", S::NAME), i as u64);
        let npoly = range(&mut rng, 1, 4);
        let mut inst = match guarded(|| instance::<S>(&mut rng, ctx.thorough, npoly)) {
            Ok(Ok(x)) => x,
            Ok(Err(e)) | Err(e) => {
                ctx.rep.expect_fail(
                    &id,
                    &format!("{}/in-domain-setup-refused", S::NAME),
                    &format!("setup/trim/commit refused or aborted an in-domain request: {}", e),
                    format!("# scheme: {}\n# case: {}\n# seed: {}\n# {}\n", S::NAME, id, ctx.seed, e),
                );
                ctx.rep.case(&format!("{} setup failed", S::NAME), None);
                continue;
            }
        };
        let nlabels = range(&mut rng, 1, 3);
        let (qs, ev) = query_set::<S>(&mut rng, &inst, nlabels, true);
        let mut sp = fresh_sponge();
        sp.absorb_seed(i as u64);
        let mut vs = sp.clone();
        let proof = match batch_open::<S>(&inst, &qs, &mut sp, &mut rng) {
            Ok(p) => p,
            Err(e) => {
                ctx.rep.expect_fail(
                    &id,
                    &format!("{}/honest-open-refused", S::NAME),
                    &format!("batch_open refused an in-domain request: {}", e),
                    fail_replay(&inst, &id, ctx.seed, &e),
                );
                ctx.rep.case(&inst.desc(), None);
                continue;
            }
        };
        let out = batch_check::<S>(&inst, &inst.comms, &qs, &ev, &proof, &mut vs, &mut rng);
        if !out.accepted() {
            ctx.rep.expect_fail(
                &id,
                &format!("{}/honest-rejected", S::NAME),
                &format!("honest batch proof not accepted: {:?}", out),
                fail_replay(&inst, &id, ctx.seed, "batch_check(honest) != Ok(true)"),
            );
        }
        if out.accepted() && sp.probe() != vs.probe() {
            ctx.rep.expect_fail(
                &id,
                &format!("{}/sponge-diverged", S::NAME),
                "prover and verifier sponges differ after an accepted batch",
                fail_replay(&inst, &id, ctx.seed, "sponge end states differ"),
            );
        }
        // independent permutation of the verifier's commitment list
        let mut comms2 = inst.comms.clone();
        shuffle(&mut rng, &mut comms2);
        let mut vs2 = fresh_sponge();
        vs2.absorb_seed(i as u64);
        let out2 = batch_check::<S>(&inst, &comms2, &qs, &ev, &proof, &mut vs2, &mut rng);
        if out2 != out {
            ctx.rep.expect_fail(
                &id,
                &format!("{}/verifier-order-dependent", S::NAME),
                &format!("decision changed with the order of the commitment list: {:?} vs {:?}", out, out2),
                fail_replay(&inst, &id, ctx.seed, "permuted commitment list"),
            );
        }
        // consistent permutation of the prover's lists: same proof bytes for deterministic provers,
        // accepted in any case
        let mut idx: Vec<usize> = (0..inst.polys.len()).collect();
        shuffle(&mut rng, &mut idx);
        let polys2: Vec<_> = idx.iter().map(|&j| inst.polys[j].clone()).collect();
        let comms3: Vec<_> = idx.iter().map(|&j| inst.comms[j].clone()).collect();
        let states3: Vec<_> = idx.iter().map(|&j| inst.states[j].clone()).collect();
        inst.polys = polys2;
        inst.comms = comms3;
        inst.states = states3;
        let mut sp3 = fresh_sponge();
        sp3.absorb_seed(i as u64);
        let mut vs3 = sp3.clone();
        match batch_open::<S>(&inst, &qs, &mut sp3, &mut rng) {
            Ok(p3) => {
                let out3 = batch_check::<S>(&inst, &comms2, &qs, &ev, &p3, &mut vs3, &mut rng);
                if !out3.accepted() {
                    ctx.rep.expect_fail(
                        &id,
                        &format!("{}/prover-order-dependent", S::NAME),
                        &format!("proof from permuted prover lists not accepted: {:?}", out3),
                        fail_replay(&inst, &id, ctx.seed, "permuted prover lists"),
                    );
                }
            }
            Err(e) => ctx.rep.expect_fail(
                &id,
                &format!("{}/prover-order-dependent", S::NAME),
                &format!("batch_open refused permuted lists: {}", e),
                fail_replay(&inst, &id, ctx.seed, "permuted prover lists"),
            ),
        }
        ctx.rep.count(&format!("{}/labels-{}", S::NAME, nlabels));
        ctx.rep.count(&format!("{}/polys-{}", S::NAME, npoly));
        for k in &inst.kinds {
            ctx.rep.count(&format!("{}/poly-{}", S::NAME, k));
        }
        let nontrivial = if qs.len() >= 2 {
            Some(format!("{}/{}/{}/{}", S::NAME, npoly, nlabels, qs.len()))
        } else {
            None
        };
        ctx.rep.case(&format!("{} queries={}", inst.desc(), qs.len()), nontrivial);
    }
}

// ------------------------------------------------------------------------------------------------
// C02 / C05 at trait level: statement mutations in batches; batch = AND(individual)
// ------------------------------------------------------------------------------------------------
pub fn c02_c05<S: Scheme>(ctx: &mut Ctx, prop: &str, n: usize)
where
    Pt<S>: Clone + Ord + std::fmt::Debug,
    SProof<S>: Clone,
    Comm<S>: Clone,
    BProof<S>: Clone,
{
    for i in 0..n {
        let id0 = format!("{}/{}/{}", prop, S::NAME, i);
        if !ctx.selected(&id0) {
            continue;
        }
        let mut rng = rng_for(ctx.seed, &format!("{}/{}", prop, S::NAME), i as u64);
        let npoly = range(&mut rng, 2, 4);
        let inst = match guarded(|| instance::<S>(&mut rng, ctx.thorough, npoly)) {
            Ok(Ok(x)) => x,
            _ => continue,
        };
        let nlabels = range(&mut rng, 2, 3);
        let (qs, ev) = query_set::<S>(&mut rng, &inst, nlabels, true);
        let mut sp = fresh_sponge();
        let proof = match batch_open::<S>(&inst, &qs, &mut sp, &mut rng) {
            Ok(p) => p,
            Err(_) => continue,
        };
        let proofs: Vec<SProof<S>> = proof.clone().into();
        let keys: Vec<(String, Pt<S>)> = ev.keys().cloned().collect();
        // mutation plans: each is a set of evaluation keys to perturb
        let mut plans: Vec<(String, Vec<usize>, bool)> = vec![("honest".into(), vec![], false)];
        for k in 0..keys.len() {
            plans.push((format!("value@{}", k), vec![k], false));
        }
        if keys.len() >= 2 {
            // cancelling errors: sum of deltas is zero
            let a = range(&mut rng, 0, keys.len() - 1);
            let mut b = range(&mut rng, 0, keys.len() - 1);
            if a == b {
                b = (a + 1) % keys.len();
            }
            plans.push((format!("cancel@{},{}", a, b), vec![a, b], true));
        }
        for (pname, positions, cancel) in plans {
            let id = format!("{}/{}", id0, pname);
            let mut ev2 = ev.clone();
            let delta = rand_nonzero(&mut rng);
            for (j, &k) in positions.iter().enumerate() {
                let e = ev2.get_mut(&keys[k]).unwrap();
                if cancel && j == 1 {
                    *e -= delta;
                } else {
                    *e += delta;
                }
            }
            let mut vsp = fresh_sponge();
            let brng = rng.clone();
            let out = batch_check::<S>(&inst, &inst.comms, &qs, &ev2, &proof, &mut vsp, &mut rng);
            let mut isp = fresh_sponge();
            let mut irng = brng.clone();
            let ind = individual_checks::<S>(&inst, &inst.comms, &qs, &ev2, &proofs, &mut isp, &mut irng);
            let all = ind.iter().all(|o| o.accepted()) && ind.len() == proofs.len();
            if positions.is_empty() {
                if !out.accepted() {
                    ctx.rep.expect_fail(&id, &format!("{}/honest-rejected", S::NAME),
                        &format!("honest batch rejected: {:?}", out),
                        fail_replay(&inst, &id, ctx.seed, "honest batch"));
                }
            } else if out.accepted() {
                ctx.rep.expect_fail(&id, &format!("{}/false-claim-accepted/{}", S::NAME, if cancel {"cancelling"} else {"value"}),
                    &format!("batch with false claim(s) at {:?} accepted", positions),
                    fail_replay(&inst, &id, ctx.seed, &format!("evaluations perturbed at {:?} (cancelling={})", positions, cancel)));
            }
            if out.accepted() != all {
                ctx.rep.expect_fail(&id, &format!("{}/batch-differs-from-individual", S::NAME),
                    &format!("batch_check={:?} but individual checks={:?}", out, ind),
                    fail_replay(&inst, &id, ctx.seed, &format!("plan {}", pname)));
            }
            ctx.rep.count(&format!("{}/plan-{}", S::NAME, pname.split('@').next().unwrap()));
            ctx.rep.case(
                &format!("{} plan={} out={:?}", inst.desc(), pname, out),
                Some(format!("{}/{}/{}/{}", S::NAME, npoly, nlabels, pname)),
            );
        }
        // point moved for one label (proof made for the old point)
        {
            let id = format!("{}/point", id0);
            let groups = group(&qs);
            let (gl, gpt, glabels) = groups[range(&mut rng, 0, groups.len() - 1)].clone();
            let newpt = S::rand_point(&mut rng, &inst.sizes);
            let all_const = glabels.iter().all(|l| {
                inst.polys.iter().find(|p| p.label() == l).map(|p| S::is_constant(p.polynomial())).unwrap_or(false)
            });
            if newpt != gpt && !all_const {
                let mut qs2 = QuerySet::new();
                let mut ev2 = Evaluations::new();
                for (l, (pl, pt)) in qs.iter() {
                    if *pl == gl {
                        qs2.insert((l.clone(), (pl.clone(), newpt.clone())));
                    } else {
                        qs2.insert((l.clone(), (pl.clone(), pt.clone())));
                    }
                }
                for (l, (pl, pt)) in qs.iter() {
                    let v = ev[&(l.clone(), pt.clone())];
                    if *pl == gl {
                        // keep the old value: the claim "p(newpt) = p(oldpt)" (false unless equal)
                        let p = inst.polys.iter().find(|p| p.label() == l).unwrap();
                        if p.evaluate(&newpt) == v { continue; }
                        ev2.insert((l.clone(), newpt.clone()), v);
                    } else {
                        ev2.entry((l.clone(), pt.clone())).or_insert(v);
                    }
                }
                let complete = qs2.iter().all(|(l, (_, pt))| ev2.contains_key(&(l.clone(), pt.clone())));
                if complete {
                    let mut vsp = fresh_sponge();
                    let out = batch_check::<S>(&inst, &inst.comms, &qs2, &ev2, &proof, &mut vsp, &mut rng);
                    if out.accepted() {
                        ctx.rep.expect_fail(&id, &format!("{}/false-claim-accepted/point", S::NAME),
                            "proof for one point accepted at another point",
                            fail_replay(&inst, &id, ctx.seed, &format!("point label {} moved", gl)));
                    }
                    ctx.rep.count(&format!("{}/plan-point", S::NAME));
                    ctx.rep.case(&format!("{} plan=point out={:?}", inst.desc(), out),
                        Some(format!("{}/{}/point", S::NAME, npoly)));
                }
            }
        }
        // commitment to a different polynomial in place of the original
        {
            let id = format!("{}/commitment", id0);
            let j = range(&mut rng, 0, inst.polys.len() - 1);
            let old = &inst.polys[j];
            let q = S::rand_poly(&mut rng, &inst.sizes, old.degree().max(1));
            let lq = LabeledPolynomial::new(old.label().clone(), q, old.degree_bound(), old.hiding_bound());
            if let Ok(Ok((cq, _))) = guarded(|| S::PC::commit(&inst.ck, [&lq], Some(&mut rng.clone()))) {
                let queried = qs.iter().any(|(l, _)| l == old.label());
                if queried {
                    let mut comms2 = inst.comms.clone();
                    comms2[j] = cq[0].clone();
                    let mut vsp = fresh_sponge();
                    let out = batch_check::<S>(&inst, &comms2, &qs, &ev, &proof, &mut vsp, &mut rng);
                    if out.accepted() {
                        ctx.rep.expect_fail(&id, &format!("{}/false-claim-accepted/commitment", S::NAME),
                            "commitment to a different polynomial accepted with the original proof",
                            fail_replay(&inst, &id, ctx.seed, &format!("commitment {} replaced", j)));
                    }
                    ctx.rep.count(&format!("{}/plan-commitment", S::NAME));
                    ctx.rep.case(&format!("{} plan=commitment out={:?}", inst.desc(), out),
                        Some(format!("{}/{}/commitment", S::NAME, npoly)));
                }
            }
        }
        // proof-list shape: permuted / truncated / extended / duplicated
        if prop == "C05" || prop == "C03" {
            let shapes: Vec<(&str, Vec<SProof<S>>)> = {
                let mut v: Vec<(&str, Vec<SProof<S>>)> = vec![];
                v.push(("empty", vec![]));
                if proofs.len() >= 1 {
                    v.push(("truncated", proofs[..proofs.len() - 1].to_vec()));
                    let mut e = proofs.clone();
                    e.push(proofs[0].clone());
                    v.push(("extended", e));
                }
                if proofs.len() >= 2 {
                    let mut p = proofs.clone();
                    p.swap(0, 1);
                    v.push(("swapped", p));
                    let mut d = proofs.clone();
                    d[1] = d[0].clone();
                    v.push(("duplicated", d));
                }
                v
            };
            // a false claim somewhere so that acceptance is never legitimate
            let mut ev2 = ev.clone();
            let k = range(&mut rng, 0, keys.len() - 1);
            *ev2.get_mut(&keys[k]).unwrap() += rand_nonzero(&mut rng);
            for (sname, plist) in shapes {
                let id = format!("{}/shape-{}", id0, sname);
                let bp: BProof<S> = plist.into();
                let mut vsp = fresh_sponge();
                let out_false = batch_check::<S>(&inst, &inst.comms, &qs, &ev2, &bp, &mut vsp, &mut rng);
                if out_false.accepted() {
                    ctx.rep.expect_fail(&id, &format!("{}/false-claim-accepted/shape-{}", S::NAME, sname),
                        &format!("false claim accepted with a {} proof list", sname),
                        fail_replay(&inst, &id, ctx.seed, &format!("proof list {}", sname)));
                }
                ctx.rep.count(&format!("{}/shape-{}", S::NAME, sname));
                ctx.rep.case(&format!("{} shape={} out={:?}", inst.desc(), sname, out_false),
                    Some(format!("{}/{}/shape-{}", S::NAME, npoly, sname)));
            }
        }
    }
}

impl LogSponge {
    /// pre-seed the transcript with arbitrary absorbed data
    pub fn absorb_seed(&mut self, x: u64) {
        use ark_crypto_primitives::sponge::CryptographicSponge;
        self.absorb(&x.to_le_bytes().to_vec());
        self.log.clear();
    }
}

#[allow(dead_code)]
pub fn lc_unused(_: &LinearCombination<Fr>) {}
#[allow(dead_code)]
pub fn one() -> Fr {
    Fr::one()
}
