//! Property C18 — thread count / `parallel` feature (DESIGN.md §5, C18).
//!
//! Child mode (`--child`): derive the C18 transcript set from `ctx.seed` alone and print one line
//! `digest <case-id> <sha256 of the canonical serialization>` per deterministic output:
//! universal parameters, committer / verifier keys, non-hiding and seeded-hiding commitments with
//! their commitment states, batch proofs of the provers that draw all randomness from the caller,
//! and the verifier's decision on the honest and on a tampered claim.
//! Hyrax `commit` under `parallel` blinds with `rand::thread_rng()` (translators/par_sites.py lists
//! that site, Props/C18.lean pins it), so its commitments and proofs are not deterministic outputs:
//! the parent produces ONE Hyrax transcript per case with the default binary, stores it under
//! `ctx.workdir`, and every child only verifies it (keys and decisions are compared).
//!
//! Parent mode: run this executable as a child under `RAYON_NUM_THREADS ∈ {1,2,3,8,16}` (16 repeated)
//! and the harness binary built without the `parallel` feature (`--nopar-bin`), and require the same
//! set of case-ids with the same digests everywhere.
use crate::common::*;
use crate::generic::{self, Instance, Outcome, Scheme, Sizes};
use crate::kzg;
use crate::Ctx;
use ark_bls12_381::Fr;
use ark_ff::{One, UniformRand};
use ark_poly::{DenseUVPolynomial, Polynomial};
use ark_poly_commit::{LabeledCommitment, LabeledPolynomial, PolynomialCommitment};
use ark_serialize::{CanonicalDeserialize, CanonicalSerialize};
use sha2::{Digest, Sha256};
use std::collections::BTreeMap;

type Pt<S> = <<S as Scheme>::P as Polynomial<Fr>>::Point;
type Comm<S> = <<S as Scheme>::PC as PolynomialCommitment<Fr, <S as Scheme>::P>>::Commitment;
type BProof<S> = <<S as Scheme>::PC as PolynomialCommitment<Fr, <S as Scheme>::P>>::BatchProof;

fn hex(bytes: &[u8]) -> String {
    bytes.iter().map(|b| format!("{:02x}", b)).collect()
}

fn sha(bytes: &[u8]) -> String {
    let mut h = Sha256::new();
    h.update(bytes);
    hex(&h.finalize())
}

/// SHA-256 of the canonical (compressed) serialization
fn dg<T: CanonicalSerialize>(x: &T) -> String {
    let mut buf = vec![];
    x.serialize_compressed(&mut buf).expect("serialization of a library output");
    sha(&buf)
}

/// Sizes large enough that every parallel site works on tens to thousands of items.
pub trait Big: Scheme {
    /// the prover draws all its randomness from the caller's RNG
    const CALLER_RANDOM: bool = true;
    fn big(t: usize) -> Sizes;
    /// largest hiding bound used
    const MAX_HIDING: usize = 8;
}

impl Big for generic::Marlin {
    fn big(t: usize) -> Sizes {
        let (d, s) = [(160, 150), (256, 256), (97, 96)][t % 3];
        Sizes { max_degree: d, supported: s, num_vars: None }
    }
}
impl Big for generic::Sonic {
    fn big(t: usize) -> Sizes {
        let (d, s) = [(144, 140), (256, 255), (101, 101)][t % 3];
        Sizes { max_degree: d, supported: s, num_vars: None }
    }
}
impl Big for generic::Ipa {
    fn big(t: usize) -> Sizes {
        let (d, s) = [(127, 127), (255, 255), (100, 63)][t % 3];
        Sizes { max_degree: d, supported: s, num_vars: None }
    }
}
impl Big for generic::Pst13 {
    const MAX_HIDING: usize = 2;
    fn big(t: usize) -> Sizes {
        let (nv, d) = [(4, 4), (3, 6), (5, 3)][t % 3];
        Sizes { max_degree: d, supported: d, num_vars: Some(nv) }
    }
}
impl Big for generic::Hyrax {
    const CALLER_RANDOM: bool = false;
    fn big(t: usize) -> Sizes {
        Sizes { max_degree: 1, supported: 1, num_vars: Some([8, 10, 6][t % 3]) }
    }
}
impl Big for generic::UniLigero {
    fn big(t: usize) -> Sizes {
        // degree+1 coefficients in a ~sqrt x sqrt matrix: 65..95 columns, 4x as many after encoding
        let d = [4200, 9000, 5000][t % 3];
        Sizes { max_degree: d, supported: d, num_vars: None }
    }
}
impl Big for generic::MlLigero {
    fn big(t: usize) -> Sizes {
        Sizes { max_degree: 1, supported: 1, num_vars: Some([12, 13, 11][t % 3]) }
    }
}
impl Big for generic::Brakedown {
    fn big(t: usize) -> Sizes {
        Sizes { max_degree: 1, supported: 1, num_vars: Some([12, 13, 11][t % 3]) }
    }
}

fn hyrax_file(workdir: &str, seed: u64, t: usize) -> String {
    format!("{}/C18-hyrax-s{}-t{}.bin", workdir, seed, t)
}

/// Everything that precedes `commit`, derived from (seed, scheme, t) only — identical in every
/// configuration as long as setup / trim consume the caller's RNG identically (which the `pp`,
/// `ck`, `vk` digests check).  The query set is drawn BEFORE commit so that it does not depend on
/// how much of the caller's RNG `commit` consumes.
struct Prep<S: Scheme> {
    inst: Instance<S>,
    qs: ark_poly_commit::QuerySet<Pt<S>>,
    ev: ark_poly_commit::Evaluations<Pt<S>, Fr>,
    rng: Rng,
}

fn prepare<S: Big>(seed: u64, t: usize) -> Result<Prep<S>, String>
where
    Pt<S>: Clone + Ord + std::fmt::Debug,
{
    let mut rng = rng_for(seed, &format!("C18/{}", S::NAME), t as u64);
    let sizes = S::big(t);
    let pp = S::PC::setup(sizes.max_degree, sizes.num_vars, &mut rng)
        .map_err(|e| format!("setup: {:?}", e))?;
    let sup = sizes.supported;
    let mut polys = vec![];
    let mut kinds = vec![];
    let mut bounds: Vec<usize> = vec![];
    // p0: maximal degree, plain.  p1: bounded and hiding where the scheme has these notions.
    // p2: random degree in the upper half, hiding without bound.
    for i in 0..3usize {
        let degree = match i {
            0 => sup,
            1 => (sup * 3 / 4).max(1),
            _ => range(&mut rng, (sup / 2).max(1), sup),
        };
        let poly = S::rand_poly(&mut rng, &sizes, degree);
        let deg = poly.degree();
        let bound = if S::BOUNDS && i == 1 {
            let b = range(&mut rng, deg.max(1), sup);
            bounds.push(b);
            Some(b)
        } else {
            None
        };
        let hiding = if S::HIDING && i >= 1 {
            Some(range(&mut rng, S::HIDING_MIN.max(1), S::MAX_HIDING.min(sup).max(1)))
        } else {
            None
        };
        polys.push(LabeledPolynomial::new(format!("p{}", i), poly, bound, hiding));
        kinds.push(["max-degree", "bounded", "dense"][i]);
    }
    let bounds_opt = if S::BOUNDS { Some(bounds) } else { None };
    let (ck, vk) = S::PC::trim(&pp, sup, sup, bounds_opt.as_deref()).map_err(|e| format!("trim: {:?}", e))?;
    let mut inst = Instance::<S> {
        sizes,
        pp,
        ck,
        vk,
        polys,
        kinds,
        comms: vec![],
        states: vec![],
        bounds: bounds_opt,
        shb: sup,
    };
    let (qs, ev) = generic::query_set::<S>(&mut rng, &inst, 2, false);
    inst.comms.clear();
    Ok(Prep { inst, qs, ev, rng })
}

fn outcome_digest(o: &Outcome) -> String {
    sha(format!("{:?}", o).as_bytes())
}

fn tampered<S: Scheme>(ev: &ark_poly_commit::Evaluations<Pt<S>, Fr>) -> ark_poly_commit::Evaluations<Pt<S>, Fr>
where
    Pt<S>: Clone + Ord,
{
    let mut ev2 = ev.clone();
    if let Some((_, v)) = ev2.iter_mut().next() {
        *v += Fr::one();
    }
    ev2
}

/// digests of one transcript of scheme `S`
fn child_scheme<S: Big>(ctx: &Ctx, t: usize, out: &mut Vec<(String, String)>)
where
    Pt<S>: Clone + Ord + std::fmt::Debug,
{
    let id = |what: &str| format!("{}/t{}/{}", S::NAME, t, what);
    let Prep { mut inst, qs, ev, mut rng } = match guarded(|| prepare::<S>(ctx.seed, t)) {
        Ok(Ok(p)) => p,
        Ok(Err(e)) | Err(e) => {
            out.push((id("setup-failed"), sha(e.as_bytes())));
            return;
        }
    };
    out.push((id("pp"), dg(&inst.pp)));
    out.push((id("ck"), dg(&inst.ck)));
    out.push((id("vk"), dg(&inst.vk)));
    let mut evbuf = vec![];
    for ((l, _), v) in ev.iter() {
        evbuf.extend_from_slice(l.as_bytes());
        v.serialize_compressed(&mut evbuf).unwrap();
    }
    out.push((id("evaluations"), sha(&evbuf)));

    let proof: BProof<S>;
    if S::CALLER_RANDOM {
        match guarded(|| S::PC::commit(&inst.ck, &inst.polys, Some(&mut rng))) {
            Ok(Ok((comms, states))) => {
                for c in &comms {
                    let kind = inst
                        .polys
                        .iter()
                        .find(|p| p.label() == c.label())
                        .map(|p| if p.hiding_bound().is_some() { "hiding" } else { "plain" })
                        .unwrap_or("?");
                    let mut buf = vec![];
                    c.commitment().serialize_compressed(&mut buf).unwrap();
                    buf.extend_from_slice(format!("{:?}", c.degree_bound()).as_bytes());
                    out.push((id(&format!("commit-{}-{}", c.label(), kind)), sha(&buf)));
                }
                out.push((id("commit-states"), dg(&states)));
                inst.comms = comms;
                inst.states = states;
            }
            Ok(Err(e)) => {
                out.push((id("commit-refused"), sha(err_kind(&e).as_bytes())));
                return;
            }
            Err(a) => {
                out.push((id("commit-aborted"), sha(a.as_bytes())));
                return;
            }
        }
        let mut sp = generic::fresh_sponge();
        sp.absorb_seed(t as u64);
        match generic::batch_open::<S>(&inst, &qs, &mut sp, &mut rng) {
            Ok(p) => {
                out.push((id("batch-proof"), dg(&p)));
                out.push((id("prover-sponge"), dg(&sp.probe())));
                proof = p;
            }
            Err(e) => {
                out.push((id("open-refused"), sha(e.as_bytes())));
                return;
            }
        }
    } else {
        // transcript made once by the parent; the child only verifies it
        let path = hyrax_file(&ctx.workdir, ctx.seed, t);
        let bytes = match std::fs::read(&path) {
            Ok(b) => b,
            Err(e) => {
                eprintln!("C18 child: transcript file {} missing: {}", path, e);
                std::process::exit(3);
            }
        };
        let mut rd = &bytes[..];
        let cs = Vec::<Comm<S>>::deserialize_compressed(&mut rd).expect("stored commitments");
        let p = BProof::<S>::deserialize_compressed(&mut rd).expect("stored proof");
        inst.comms = inst
            .polys
            .iter()
            .zip(cs)
            .map(|(lp, c)| LabeledCommitment::new(lp.label().clone(), c, lp.degree_bound()))
            .collect();
        out.push((id("stored-transcript"), sha(&bytes)));
        proof = p;
    }
    let mut crng = rng_for(ctx.seed, &format!("C18/{}/check", S::NAME), t as u64);
    let mut vs = generic::fresh_sponge();
    vs.absorb_seed(t as u64);
    let o = generic::batch_check::<S>(&inst, &inst.comms, &qs, &ev, &proof, &mut vs, &mut crng);
    out.push((id(&format!("check-honest={}", if o.accepted() { "accept" } else { "refuse" })), outcome_digest(&o)));
    out.push((id("verifier-sponge"), dg(&vs.probe())));
    let ev2 = tampered::<S>(&ev);
    let mut vs2 = generic::fresh_sponge();
    vs2.absorb_seed(t as u64);
    let o2 = generic::batch_check::<S>(&inst, &inst.comms, &qs, &ev2, &proof, &mut vs2, &mut crng);
    out.push((id(&format!("check-tampered={}", if o2.accepted() { "accept" } else { "refuse" })), outcome_digest(&o2)));
}

/// parent: the one transcript of a prover that does not draw all randomness from the caller
fn parent_transcript<S: Big>(ctx: &mut Ctx, t: usize)
where
    Pt<S>: Clone + Ord + std::fmt::Debug,
{
    let path = hyrax_file(&ctx.workdir, ctx.seed, t);
    let r = guarded(|| -> Result<Vec<u8>, String> {
        let Prep { mut inst, qs, ev, .. } = prepare::<S>(ctx.seed, t)?;
        let mut prng = rng_for(ctx.seed, &format!("C18/{}/prover", S::NAME), t as u64);
        let (comms, states) =
            S::PC::commit(&inst.ck, &inst.polys, Some(&mut prng)).map_err(|e| format!("commit: {:?}", e))?;
        inst.comms = comms;
        inst.states = states;
        let mut sp = generic::fresh_sponge();
        sp.absorb_seed(t as u64);
        let proof = generic::batch_open::<S>(&inst, &qs, &mut sp, &mut prng)?;
        let _ = ev;
        let cs: Vec<Comm<S>> = inst.comms.iter().map(|c| c.commitment().clone()).collect();
        let mut buf = vec![];
        cs.serialize_compressed(&mut buf).map_err(|e| format!("{:?}", e))?;
        proof.serialize_compressed(&mut buf).map_err(|e| format!("{:?}", e))?;
        Ok(buf)
    });
    match r {
        Ok(Ok(buf)) => {
            std::fs::create_dir_all(&ctx.workdir).ok();
            std::fs::write(&path, buf).expect("write transcript file");
        }
        Ok(Err(e)) | Err(e) => {
            ctx.rep.notes.push(format!("{} t{}: parent could not produce the stored transcript: {}", S::NAME, t, e));
            std::fs::remove_file(&path).ok();
        }
    }
}

/// plain KZG10 (not a `PolynomialCommitment` impl): setup, test-style trim, commit, open, check
fn child_kzg10(ctx: &Ctx, t: usize, out: &mut Vec<(String, String)>) {
    use kzg::{Kzg, UniPoly};
    let id = |what: &str| format!("kzg10/t{}/{}", t, what);
    let mut rng = rng_for(ctx.seed, "C18/kzg10", t as u64);
    let (d, s) = [(200usize, 180usize), (256, 256), (130, 129)][t % 3];
    let r = guarded(|| {
        let pp = Kzg::setup(d, t % 2 == 1, &mut rng).expect("kzg10 setup");
        out.push((id("pp"), dg(&pp)));
        let (powers, vk) = kzg::trim(&pp, s);
        out.push((id("powers"), dg(&powers)));
        out.push((id("vk"), dg(&vk)));
        let mut comms = vec![];
        let mut zs = vec![];
        let mut vals = vec![];
        let mut proofs = vec![];
        for (i, hb) in [None, Some(range(&mut rng, 1, 8)), Some(0usize)].into_iter().enumerate() {
            let p = UniPoly::rand(if i == 0 { s } else { range(&mut rng, s / 2, s) }, &mut rng);
            let kind = if hb.is_some() { "hiding" } else { "plain" };
            let (c, rand) = Kzg::commit(&powers, &p, hb, Some(&mut rng)).expect("kzg10 commit");
            out.push((id(&format!("commit-{}-{}", i, kind)), dg(&c)));
            out.push((id(&format!("randomness-{}", i)), dg(&rand)));
            let z = Fr::rand(&mut rng);
            let v = p.evaluate(&z);
            let pr = Kzg::open(&powers, &p, z, &rand).expect("kzg10 open");
            out.push((id(&format!("proof-{}-{}", i, kind)), dg(&pr)));
            let ok = Kzg::check(&vk, &c, z, v, &pr);
            out.push((id(&format!("check-{}", i)), sha(format!("{:?}", ok.as_ref().map_err(err_kind)).as_bytes())));
            let bad = Kzg::check(&vk, &c, z, v + Fr::one(), &pr);
            out.push((id(&format!("check-tampered-{}", i)), sha(format!("{:?}", bad.as_ref().map_err(err_kind)).as_bytes())));
            comms.push(c);
            zs.push(z);
            vals.push(v);
            proofs.push(pr);
        }
        let mut brng = rng_for(ctx.seed, "C18/kzg10/batch", t as u64);
        let b = Kzg::batch_check(&vk, &comms, &zs, &vals, &proofs, &mut brng);
        out.push((id("batch-check"), sha(format!("{:?}", b.as_ref().map_err(err_kind)).as_bytes())));
        vals[1] += Fr::one();
        let b2 = Kzg::batch_check(&vk, &comms, &zs, &vals, &proofs, &mut brng);
        out.push((id("batch-check-tampered"), sha(format!("{:?}", b2.as_ref().map_err(err_kind)).as_bytes())));
    });
    if let Err(a) = r {
        out.push((id("aborted"), sha(a.as_bytes())));
    }
}

fn transcripts(ctx: &Ctx) -> usize {
    ctx.n(1, 3)
}

fn child(ctx: &mut Ctx) {
    let n = transcripts(ctx);
    let mut out: Vec<(String, String)> = vec![];
    for t in 0..n {
        child_scheme::<generic::Marlin>(ctx, t, &mut out);
        child_scheme::<generic::Sonic>(ctx, t, &mut out);
        child_scheme::<generic::Ipa>(ctx, t, &mut out);
        child_scheme::<generic::Pst13>(ctx, t, &mut out);
        child_scheme::<generic::Hyrax>(ctx, t, &mut out);
        child_scheme::<generic::UniLigero>(ctx, t, &mut out);
        child_scheme::<generic::MlLigero>(ctx, t, &mut out);
        child_scheme::<generic::Brakedown>(ctx, t, &mut out);
        child_kzg10(ctx, t, &mut out);
    }
    use std::io::Write;
    let stdout = std::io::stdout();
    let mut w = stdout.lock();
    // what this process really is: lets the parent confirm that the configuration took effect
    writeln!(
        w,
        "info parallel={} threads={}",
        cfg!(feature = "parallel"),
        rayon::current_num_threads()
    )
    .unwrap();
    for (k, v) in &out {
        writeln!(w, "digest {} {}", k, v).unwrap();
    }
    w.flush().unwrap();
}

struct Config {
    name: String,
    bin: String,
    threads: usize,
    /// the binary is expected to have been built with the `parallel` feature
    parallel: bool,
}

fn child_cmd(c: &Config, ctx: &Ctx) -> Vec<String> {
    vec![
        "env".into(),
        format!("RAYON_NUM_THREADS={}", c.threads),
        c.bin.clone(),
        "C18".into(),
        "--child".into(),
        "--seed".into(),
        ctx.seed.to_string(),
        "--tier".into(),
        (if ctx.thorough { "thorough" } else { "quick" }).into(),
        "--workdir".into(),
        ctx.workdir.clone(),
        "--out".into(),
        "/dev/null".into(),
    ]
}

fn run_child(c: &Config, ctx: &Ctx) -> Result<BTreeMap<String, String>, String> {
    let cmd = child_cmd(c, ctx);
    let o = std::process::Command::new(&cmd[0])
        .args(&cmd[1..])
        .output()
        .map_err(|e| format!("cannot spawn {}: {}", c.bin, e))?;
    let text = String::from_utf8_lossy(&o.stdout);
    let mut m = BTreeMap::new();
    let mut info_ok = false;
    let expect_info = format!("info parallel={} threads={}", c.parallel, c.threads);
    for l in text.lines() {
        if l.starts_with("info ") {
            if l.trim() != expect_info {
                return Err(format!("configuration did not take effect: child reports `{}`, expected `{}`", l, expect_info));
            }
            info_ok = true;
            continue;
        }
        let f: Vec<&str> = l.split(' ').collect();
        if f.len() == 3 && f[0] == "digest" {
            if m.insert(f[1].to_string(), f[2].to_string()).is_some() {
                return Err(format!("case-id {} printed twice", f[1]));
            }
        }
    }
    if !o.status.success() {
        return Err(format!(
            "child exited with {:?}: {}",
            o.status.code(),
            String::from_utf8_lossy(&o.stderr).chars().take(300).collect::<String>()
        ));
    }
    if m.is_empty() || !info_ok {
        return Err("child printed no digest / no info line".into());
    }
    Ok(m)
}

pub fn run(ctx: &mut Ctx) {
    if ctx.child {
        child(ctx);
        return;
    }
    let exe = std::env::current_exe().expect("current_exe").to_string_lossy().to_string();
    // stored transcripts for provers with their own randomness (Hyrax)
    for t in 0..transcripts(ctx) {
        parent_transcript::<generic::Hyrax>(ctx, t);
    }
    let mut configs: Vec<Config> = vec![];
    for th in [1usize, 2, 3, 8, 16] {
        configs.push(Config {
            name: format!("parallel/threads={}", th),
            bin: exe.clone(),
            threads: th,
            parallel: cfg!(feature = "parallel"),
        });
    }
    let repeats = ctx.n(2, 5);
    for r in 0..repeats {
        configs.push(Config {
            name: format!("parallel/threads=16/repeat{}", r + 2),
            bin: exe.clone(),
            threads: 16,
            parallel: cfg!(feature = "parallel"),
        });
    }
    match ctx.nopar_bin.clone() {
        Some(p) if std::path::Path::new(&p).is_file() => {
            configs.push(Config { name: "no-parallel-feature/threads=1".into(), bin: p, threads: 1, parallel: false });
        }
        Some(p) => {
            ctx.rep.expect_fail(
                "C18/no-parallel-binary",
                "harness/nopar-binary-missing",
                &format!("--nopar-bin {} was given but the file does not exist: the feature-set half of the quantifier was not run", p),
                format!("# C18: binary without the `parallel` feature missing\n# expected at: {}\n# seed: {}\n# build: cd /verif/harness && cargo build --offline --no-default-features --target-dir /verif/.build/cargo-nopar\n", p, ctx.seed),
            );
        }
        None => ctx
            .rep
            .notes
            .push("no --nopar-bin given: only thread counts were varied, not the feature set".into()),
    }
    if !cfg!(feature = "parallel") {
        ctx.rep.notes.push("this harness binary itself was built WITHOUT the parallel feature".into());
    }

    let mut results: Vec<(usize, BTreeMap<String, String>)> = vec![];
    for (i, c) in configs.iter().enumerate() {
        let t0 = std::time::Instant::now();
        match run_child(c, ctx) {
            Ok(m) => {
                ctx.rep.notes.push(format!(
                    "config {}: {} digests in {:.1}s",
                    c.name,
                    m.len(),
                    t0.elapsed().as_secs_f64()
                ));
                results.push((i, m));
            }
            Err(e) => {
                let cmd = child_cmd(c, ctx).join(" ");
                ctx.rep.expect_fail(
                    &format!("C18/child/{}", c.name),
                    "harness/child-failed",
                    &format!("configuration {} produced no transcript: {}", c.name, e),
                    format!("# C18: child run failed\n# configuration: {}\n# seed: {}\n# {}\n# rerun: {}\n", c.name, ctx.seed, e, cmd),
                );
            }
        }
    }
    if results.is_empty() {
        return;
    }
    let (ref_i, ref_m) = (&results[0].0, results[0].1.clone());
    let ref_cfg = &configs[*ref_i];
    for (i, m) in &results {
        let c = &configs[*i];
        for (case, d) in m {
            let scheme = case.split('/').next().unwrap_or("?").to_string();
            ctx.rep.count(&format!("scheme/{}", scheme));
            ctx.rep.case(&format!("{} under {} -> {}", case, c.name, &d[..16]), Some(case.clone()));
            let differs = match ref_m.get(case) {
                Some(rd) if rd == d => None,
                Some(rd) => Some(format!("digest {} vs {}", rd, d)),
                None => Some("case-id absent in the reference configuration".to_string()),
            };
            if let Some(what) = differs {
                ctx.rep.expect_fail(
                    &format!("C18/{}", case),
                    &format!("{}/schedule-dependent-output", scheme),
                    &format!("output {} differs between [{}] and [{}]: {}", case, ref_cfg.name, c.name, what),
                    format!(
                        "# C18: deterministic output depends on the thread count / feature set\n# case: {}\n# configuration A: {}\n# configuration B: {}\n# seed: {}\n# {}\n# reference: {} | grep '{} '\n# rerun: {}\n",
                        case,
                        ref_cfg.name,
                        c.name,
                        ctx.seed,
                        what,
                        child_cmd(ref_cfg, ctx).join(" "),
                        case,
                        child_cmd(c, ctx).join(" ")
                    ),
                );
            }
        }
        for case in ref_m.keys() {
            if !m.contains_key(case) {
                let scheme = case.split('/').next().unwrap_or("?").to_string();
                ctx.rep.expect_fail(
                    &format!("C18/{}", case),
                    &format!("{}/schedule-dependent-output", scheme),
                    &format!("output {} present under [{}] but absent under [{}]", case, ref_cfg.name, c.name),
                    format!(
                        "# C18: the set of outputs depends on the thread count / feature set\n# case: {}\n# configuration A: {}\n# configuration B: {}\n# seed: {}\n# rerun: {}\n",
                        case,
                        ref_cfg.name,
                        c.name,
                        ctx.seed,
                        child_cmd(c, ctx).join(" ")
                    ),
                );
            }
        }
        ctx.rep.count(&format!("config/{}", c.name));
    }
    // honest decisions must also be acceptances (C01's matter, but a refusal here would make the
    // decision digests vacuous): note it
    let refused: Vec<&String> = ref_m.keys().filter(|k| k.contains("check-honest=refuse")).collect();
    if !refused.is_empty() {
        ctx.rep.notes.push(format!("honest transcripts refused (see C01): {:?}", refused));
    }
    let accepted_tampered: Vec<&String> = ref_m.keys().filter(|k| k.contains("check-tampered=accept")).collect();
    if !accepted_tampered.is_empty() {
        ctx.rep.notes.push(format!("tampered claims accepted (see C02): {:?}", accepted_tampered));
    }
    // keep the digest table with the evidence
    let table = format!(
        "{{\n  \"seed\": {},\n  \"reference\": {},\n  \"configurations\": [{}],\n  \"digests\": {{\n{}\n  }}\n}}\n",
        ctx.seed,
        jstr(&ref_cfg.name),
        results.iter().map(|(i, _)| jstr(&configs[*i].name)).collect::<Vec<_>>().join(", "),
        ref_m.iter().map(|(k, v)| format!("    {}: {}", jstr(k), jstr(v))).collect::<Vec<_>>().join(",\n")
    );
    std::fs::write(format!("{}/C18-digests.json", ctx.workdir), table).ok();
    ctx.rep.notes.push(format!(
        "parallel sites and RNG gates extracted by translators/par_sites.py: {}/par_sites.json; digest table: {}/C18-digests.json",
        ctx.workdir, ctx.workdir
    ));
}
