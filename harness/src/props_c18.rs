//! Property C18 — correspondence / expectation run (see DESIGN.md §5, C18).
use crate::Ctx;

pub fn run(ctx: &mut Ctx) {
    let _ = ctx;
}
