//! Shared infrastructure: logging sponge / RNG replay, model session, per-property report.
use crate::wire::{Reply, Req, Val};
use ark_bls12_381::{Fr, G1Affine, G1Projective, G2Affine, G2Projective};
use ark_crypto_primitives::sponge::{
    poseidon::{PoseidonConfig, PoseidonSponge},
    Absorb, CryptographicSponge, FieldElementSize,
};
use ark_ec::{CurveGroup, PrimeGroup};
use ark_ff::{PrimeField, UniformRand};
use ark_std::rand::{RngCore, SeedableRng};
use rand_chacha::ChaCha20Rng;
use std::collections::{BTreeMap, BTreeSet};
use std::io::Write;

pub type Rng = ChaCha20Rng;

pub fn rng_for(seed: u64, prop: &str, case: u64) -> Rng {
    let mut h: u64 = 0xcbf29ce484222325;
    for b in prop.bytes() {
        h ^= b as u64;
        h = h.wrapping_mul(0x100000001b3);
    }
    ChaCha20Rng::seed_from_u64(seed ^ h.rotate_left(17) ^ case.wrapping_mul(0x9E3779B97F4A7C15))
}

pub fn g1(s: Fr) -> G1Affine {
    (G1Projective::generator() * s).into_affine()
}
pub fn g2(s: Fr) -> G2Affine {
    (G2Projective::generator() * s).into_affine()
}
pub fn g1s(ss: &[Fr]) -> Vec<G1Affine> {
    use ark_ec::scalar_mul::ScalarMul;
    G1Projective::generator().batch_mul(ss)
}
pub fn g2s(ss: &[Fr]) -> Vec<G2Affine> {
    use ark_ec::scalar_mul::ScalarMul;
    G2Projective::generator().batch_mul(ss)
}

pub fn rand_nonzero(rng: &mut Rng) -> Fr {
    loop {
        let x = Fr::rand(rng);
        if x != Fr::from(0u64) {
            return x;
        }
    }
}

pub fn range(rng: &mut Rng, lo: usize, hi: usize) -> usize {
    // inclusive
    lo + (rng.next_u64() as usize) % (hi - lo + 1)
}
pub fn coin(rng: &mut Rng) -> bool {
    rng.next_u32() & 1 == 1
}

/// The Poseidon parameters of the repository's own tests (`poseidon_parameters_for_test`).
pub fn poseidon_config<F: PrimeField>() -> PoseidonConfig<F> {
    let full_rounds = 8;
    let partial_rounds = 31;
    let alpha = 17;
    let mds = vec![
        vec![F::one(), F::zero(), F::one()],
        vec![F::one(), F::one(), F::zero()],
        vec![F::zero(), F::one(), F::one()],
    ];
    let mut ark = Vec::new();
    let mut ark_rng = ark_std::test_rng();
    for _ in 0..(full_rounds + partial_rounds) {
        let mut res = Vec::new();
        for _ in 0..3 {
            res.push(F::rand(&mut ark_rng));
        }
        ark.push(res);
    }
    PoseidonConfig::new(full_rounds, partial_rounds, alpha, mds, ark, 2, 1)
}

#[derive(Clone, Debug, PartialEq, Eq)]
pub enum Event {
    Absorb(Vec<u8>),
    SqueezeBytes(usize, Vec<u8>),
    SqueezeBits(usize),
    SqueezeFe(Vec<Option<usize>>, Vec<String>),
}

/// A Poseidon sponge that records every operation performed on it.
#[derive(Clone)]
pub struct LogSponge {
    pub inner: PoseidonSponge<Fr>,
    pub log: Vec<Event>,
}

impl LogSponge {
    pub fn fresh() -> Self {
        LogSponge {
            inner: PoseidonSponge::new(&poseidon_config::<Fr>()),
            log: vec![],
        }
    }
    /// squeezed field elements (decimal), in order
    pub fn challenges(&self) -> Vec<Fr> {
        use std::str::FromStr;
        let mut v = vec![];
        for e in &self.log {
            if let Event::SqueezeFe(_, outs) = e {
                for o in outs {
                    v.push(Fr::from_str(o).unwrap());
                }
            }
        }
        v
    }
    pub fn squeezed_bytes(&self) -> Vec<Vec<u8>> {
        self.log
            .iter()
            .filter_map(|e| match e {
                Event::SqueezeBytes(_, b) => Some(b.clone()),
                _ => None,
            })
            .collect()
    }
    pub fn absorbs(&self) -> Vec<Vec<u8>> {
        self.log
            .iter()
            .filter_map(|e| match e {
                Event::Absorb(b) => Some(b.clone()),
                _ => None,
            })
            .collect()
    }
    /// One extra squeeze, to compare end states.
    pub fn probe(&self) -> Fr {
        let mut c = self.inner.clone();
        c.squeeze_field_elements::<Fr>(1)[0]
    }
    pub fn shape(&self) -> String {
        self.log
            .iter()
            .map(|e| match e {
                Event::Absorb(b) => format!("a{}", b.len()),
                Event::SqueezeBytes(n, _) => format!("sb{}", n),
                Event::SqueezeBits(n) => format!("sbit{}", n),
                Event::SqueezeFe(s, _) => format!("sf{}", s.len()),
            })
            .collect::<Vec<_>>()
            .join(",")
    }
}

impl CryptographicSponge for LogSponge {
    type Config = PoseidonConfig<Fr>;
    fn new(params: &Self::Config) -> Self {
        LogSponge {
            inner: PoseidonSponge::new(params),
            log: vec![],
        }
    }
    fn absorb(&mut self, input: &impl Absorb) {
        self.log
            .push(Event::Absorb(input.to_sponge_bytes_as_vec()));
        self.inner.absorb(input);
    }
    fn squeeze_bytes(&mut self, num_bytes: usize) -> Vec<u8> {
        let out = self.inner.squeeze_bytes(num_bytes);
        self.log.push(Event::SqueezeBytes(num_bytes, out.clone()));
        out
    }
    fn squeeze_bits(&mut self, num_bits: usize) -> Vec<bool> {
        self.log.push(Event::SqueezeBits(num_bits));
        self.inner.squeeze_bits(num_bits)
    }
    fn squeeze_field_elements_with_sizes<F: PrimeField>(
        &mut self,
        sizes: &[FieldElementSize],
    ) -> Vec<F> {
        let out = self.inner.squeeze_field_elements_with_sizes::<F>(sizes);
        self.log.push(Event::SqueezeFe(
            sizes
                .iter()
                .map(|s| match s {
                    FieldElementSize::Full => None,
                    FieldElementSize::Truncated(n) => Some(*n),
                })
                .collect(),
            out.iter().map(|x| x.into_bigint().to_string()).collect(),
        ));
        out
    }
    fn squeeze_field_elements<F: PrimeField>(&mut self, num_elements: usize) -> Vec<F> {
        let out = self.inner.squeeze_field_elements::<F>(num_elements);
        self.log.push(Event::SqueezeFe(
            vec![None; num_elements],
            out.iter().map(|x| x.into_bigint().to_string()).collect(),
        ));
        out
    }
}

/// An RNG wrapper counting the bytes drawn; a clone taken before a call replays its draws.
#[derive(Clone)]
pub struct CountRng {
    pub inner: Rng,
    pub bytes: u64,
}
impl CountRng {
    pub fn new(inner: Rng) -> Self {
        CountRng { inner, bytes: 0 }
    }
}
impl RngCore for CountRng {
    fn next_u32(&mut self) -> u32 {
        self.bytes += 4;
        self.inner.next_u32()
    }
    fn next_u64(&mut self) -> u64 {
        self.bytes += 8;
        self.inner.next_u64()
    }
    fn fill_bytes(&mut self, dest: &mut [u8]) {
        self.bytes += dest.len() as u64;
        self.inner.fill_bytes(dest)
    }
    fn try_fill_bytes(&mut self, dest: &mut [u8]) -> Result<(), ark_std::rand::Error> {
        self.bytes += dest.len() as u64;
        self.inner.try_fill_bytes(dest)
    }
}

// ------------------------------------------------------------------------------------------------
// Model session
// ------------------------------------------------------------------------------------------------

#[derive(Clone, Debug)]
pub enum Expect {
    G1(G1Affine),
    G1s(Vec<G1Affine>),
    G2(G2Affine),
    Fe(Fr),
    Fes(Vec<Fr>),
    OptFe(Option<Fr>),
    Bool(bool),
    Nat(usize),
    Nats(Vec<usize>),
    Raw(Val),
    /// `some([s…])` with `sᵢ·G == pᵢ`
    SomeG1s(Vec<G1Affine>),
    /// `[none | some(s) …]`
    OptG1List(Vec<Option<G1Affine>>),
}

impl Expect {
    fn matches(&self, v: &Val) -> bool {
        match self {
            Expect::G1(p) => v.as_fr().map(|s| g1(s) == *p).unwrap_or(false),
            Expect::G2(p) => v.as_fr().map(|s| g2(s) == *p).unwrap_or(false),
            Expect::G1s(ps) => v
                .as_frs()
                .map(|ss| ss.len() == ps.len() && g1s(&ss) == *ps)
                .unwrap_or(false),
            Expect::Fe(x) => v.as_fr() == Some(*x),
            Expect::Fes(xs) => v.as_frs().as_ref() == Some(xs),
            Expect::OptFe(x) => match (x, v.as_opt()) {
                (None, Some(None)) => true,
                (Some(a), Some(Some(b))) => b.as_fr() == Some(*a),
                _ => false,
            },
            Expect::Bool(b) => v.as_usize() == Some(*b as usize),
            Expect::Nat(n) => v.as_usize() == Some(*n),
            Expect::Nats(ns) => v
                .as_list()
                .map(|l| l.iter().map(|x| x.as_usize()).collect::<Option<Vec<_>>>())
                .flatten()
                .as_ref()
                == Some(ns),
            Expect::Raw(r) => r == v,
            Expect::SomeG1s(ps) => match v.as_opt() {
                Some(Some(inner)) => inner.as_frs().map(|ss| ss.len() == ps.len() && g1s(&ss) == *ps).unwrap_or(false),
                _ => false,
            },
            Expect::OptG1List(ps) => match v.as_list() {
                Some(l) if l.len() == ps.len() => l.iter().zip(ps).all(|(x, p)| match (x.as_opt(), p) {
                    (Some(None), None) => true,
                    (Some(Some(s)), Some(p)) => s.as_fr().map(|s| g1(s) == *p).unwrap_or(false),
                    _ => false,
                }),
                _ => false,
            },
        }
    }
    fn describe(&self) -> String {
        match self {
            Expect::G1(_) => "G1-element".into(),
            Expect::G1s(v) => format!("{} G1-elements", v.len()),
            Expect::G2(_) => "G2-element".into(),
            Expect::Fe(x) => crate::wire::fe(x).to_string(),
            Expect::Fes(x) => crate::wire::fes(x).to_string(),
            Expect::OptFe(x) => crate::wire::opt_fe(x).to_string(),
            Expect::Bool(b) => format!("{}", *b as usize),
            Expect::Nat(n) => format!("{}", n),
            Expect::Nats(n) => format!("{:?}", n),
            Expect::Raw(r) => r.to_string(),
            Expect::SomeG1s(v) => format!("some({} G1-elements)", v.len()),
            Expect::OptG1List(v) => format!("{} optional G1-elements", v.len()),
        }
    }
}

/// What the implementation did on this request.
#[derive(Clone, Debug)]
pub enum ImplOutcome {
    Ok(Vec<(String, Expect)>),
    /// `Err(kind)` or a caught panic (`abort`)
    Refuse(String),
}

pub struct Pending {
    pub case_id: String,
    pub req: Req,
    pub outcome: ImplOutcome,
    /// `Some(true)`: the property requires the implementation to accept here (field `b` = 1);
    /// `Some(false)`: it requires a refusal (b = 0 or Refuse); `None`: only model equality matters.
    pub must: Option<bool>,
}

#[derive(Clone, Debug)]
pub struct Failure {
    pub case_id: String,
    pub signature: String,
    pub what: String,
    pub replay: String,
}

pub struct Session {
    pub pending: Vec<Pending>,
}

impl Session {
    pub fn new() -> Self {
        Session { pending: vec![] }
    }
    pub fn ask(&mut self, case_id: &str, req: Req, outcome: ImplOutcome) {
        self.pending.push(Pending {
            case_id: case_id.to_string(),
            req,
            outcome,
            must: None,
        });
    }
    /// Run the driver over all pending requests; return the disagreements.
    pub fn run(&mut self, drv: &str, workdir: &str, tag: &str) -> Vec<Failure> {
        let mut fails = vec![];
        if self.pending.is_empty() {
            return fails;
        }
        std::fs::create_dir_all(workdir).ok();
        let req_path = format!("{}/{}.req", workdir, tag);
        let out_path = format!("{}/{}.resp", workdir, tag);
        {
            let mut f = std::io::BufWriter::new(std::fs::File::create(&req_path).unwrap());
            writeln!(f, "field {}", crate::wire::modulus_decimal::<Fr>()).unwrap();
            for p in &self.pending {
                writeln!(f, "{}", p.req.line()).unwrap();
            }
        }
        let status = std::process::Command::new(drv)
            .stdin(std::fs::File::open(&req_path).unwrap())
            .stdout(std::fs::File::create(&out_path).unwrap())
            .status();
        let ok = matches!(status, Ok(s) if s.success());
        let text = std::fs::read_to_string(&out_path).unwrap_or_default();
        let lines: Vec<&str> = text.lines().collect();
        if !ok || lines.len() != self.pending.len() + 1 {
            fails.push(Failure {
                case_id: "driver".into(),
                signature: "driver-failed".into(),
                what: format!(
                    "model driver {} failed or returned {} replies for {} requests",
                    drv,
                    lines.len(),
                    self.pending.len() + 1
                ),
                replay: format!("driver invocation failed: {} < {}\n", drv, req_path),
            });
            return fails;
        }
        for (p, line) in self.pending.iter().zip(lines.iter().skip(1)) {
            let reply = Reply::parse(line);
            let mut diff: Option<String> = None;
            match (&p.outcome, &reply) {
                (ImplOutcome::Refuse(_k), Reply::Err(_mk)) => {}
                (ImplOutcome::Refuse(k), Reply::Ok(_)) => {
                    diff = Some(format!("implementation refused ({}) but model answered: {}", k, line))
                }
                (ImplOutcome::Ok(_), Reply::Err(mk)) => {
                    diff = Some(format!("implementation answered but model refused ({})", mk))
                }
                (ImplOutcome::Ok(kvs), Reply::Ok(_)) => {
                    for (k, e) in kvs {
                        match reply.get(k) {
                            Some(v) if e.matches(v) => {}
                            Some(v) => {
                                diff = Some(format!(
                                    "field `{}`: implementation {} vs model {}",
                                    k,
                                    e.describe(),
                                    v
                                ));
                                break;
                            }
                            None => {
                                diff = Some(format!("model reply lacks field `{}`: {}", k, line));
                                break;
                            }
                        }
                    }
                }
                (_, Reply::Bad(b)) => diff = Some(format!("model driver could not answer: {}", b)),
            }
            if let Some(d) = diff {
                let impl_desc = match &p.outcome {
                    ImplOutcome::Ok(kvs) => format!(
                        "ok {}",
                        kvs.iter()
                            .map(|(k, e)| format!("{}={}", k, e.describe()))
                            .collect::<Vec<_>>()
                            .join(" ")
                    ),
                    ImplOutcome::Refuse(k) => format!("refuse {}", k),
                };
                fails.push(Failure {
                    case_id: p.case_id.clone(),
                    signature: format!("model-disagreement/{}", p.req.op),
                    what: d.clone(),
                    replay: format!(
                        "# model/implementation disagreement\n# case: {}\n# {}\nfield {}\n{}\n# implementation: {}\n# model: {}\n",
                        p.case_id,
                        d,
                        crate::wire::modulus_decimal::<Fr>(),
                        p.req.line(),
                        impl_desc,
                        line
                    ),
                });
            }
        }
        self.pending.clear();
        fails
    }
}

// ------------------------------------------------------------------------------------------------
// Report
// ------------------------------------------------------------------------------------------------

pub struct Report {
    pub prop: String,
    pub evaluations: u64,
    pub nontrivial: BTreeSet<String>,
    pub samples: Vec<String>,
    pub dist: BTreeMap<String, u64>,
    pub expectation_failures: Vec<Failure>,
    pub model_disagreements: Vec<Failure>,
    pub notes: Vec<String>,
    pub model_requests: u64,
}

impl Report {
    pub fn new(prop: &str) -> Self {
        Report {
            prop: prop.to_string(),
            evaluations: 0,
            nontrivial: BTreeSet::new(),
            samples: vec![],
            dist: BTreeMap::new(),
            expectation_failures: vec![],
            model_disagreements: vec![],
            notes: vec![],
            model_requests: 0,
        }
    }
    pub fn count(&mut self, key: &str) {
        *self.dist.entry(key.to_string()).or_insert(0) += 1;
    }
    pub fn case(&mut self, desc: &str, nontrivial_key: Option<String>) {
        self.evaluations += 1;
        if let Some(k) = nontrivial_key {
            self.nontrivial.insert(k);
        }
        if self.samples.len() < 12 && (self.evaluations % 7 == 1 || self.samples.len() < 3) {
            self.samples.push(desc.to_string());
        }
    }
    pub fn expect_fail(&mut self, case_id: &str, signature: &str, what: &str, replay: String) {
        self.expectation_failures.push(Failure {
            case_id: case_id.to_string(),
            signature: signature.to_string(),
            what: what.to_string(),
            replay,
        });
    }
    pub fn to_json(&self, replay_dir: &str) -> String {
        std::fs::create_dir_all(replay_dir).ok();
        let mut s = String::new();
        s.push_str("{\n");
        s.push_str(&format!("  \"property\": {},\n", jstr(&self.prop)));
        s.push_str(&format!("  \"evaluations\": {},\n", self.evaluations));
        s.push_str(&format!("  \"model_requests\": {},\n", self.model_requests));
        s.push_str(&format!(
            "  \"distinct_nontrivial\": {},\n",
            self.nontrivial.len()
        ));
        s.push_str(&format!(
            "  \"samples\": [{}],\n",
            self.samples.iter().map(|x| jstr(x)).collect::<Vec<_>>().join(", ")
        ));
        s.push_str(&format!(
            "  \"distribution\": {{{}}},\n",
            self.dist
                .iter()
                .map(|(k, v)| format!("{}: {}", jstr(k), v))
                .collect::<Vec<_>>()
                .join(", ")
        ));
        s.push_str(&format!(
            "  \"notes\": [{}],\n",
            self.notes.iter().map(|x| jstr(x)).collect::<Vec<_>>().join(", ")
        ));
        let dump = |kind: &str, fs: &Vec<Failure>| -> String {
            let mut items = vec![];
            for (i, f) in fs.iter().enumerate().take(40) {
                let path = format!("{}/{}-{}-{}.replay", replay_dir, self.prop, kind, i);
                std::fs::write(&path, &f.replay).ok();
                items.push(format!(
                    "{{\"case\": {}, \"signature\": {}, \"what\": {}, \"replay\": {}}}",
                    jstr(&f.case_id),
                    jstr(&f.signature),
                    jstr(&f.what),
                    jstr(&path)
                ));
            }
            format!("[{}]", items.join(", "))
        };
        s.push_str(&format!(
            "  \"expectation_failures\": {},\n",
            dump("expect", &self.expectation_failures)
        ));
        s.push_str(&format!(
            "  \"n_expectation_failures\": {},\n",
            self.expectation_failures.len()
        ));
        s.push_str(&format!(
            "  \"model_disagreements\": {},\n",
            dump("model", &self.model_disagreements)
        ));
        s.push_str(&format!(
            "  \"n_model_disagreements\": {}\n",
            self.model_disagreements.len()
        ));
        s.push_str("}\n");
        s
    }
}

pub fn jstr(s: &str) -> String {
    let mut o = String::from("\"");
    for c in s.chars() {
        match c {
            '"' => o.push_str("\\\""),
            '\\' => o.push_str("\\\\"),
            '\n' => o.push_str("\\n"),
            '\t' => o.push_str("\\t"),
            c if (c as u32) < 0x20 => o.push_str(&format!("\\u{:04x}", c as u32)),
            c => o.push(c),
        }
    }
    o.push('"');
    o
}

/// Run `f`, turning a panic into `Err("abort")`.
pub fn guarded<T>(f: impl FnOnce() -> T) -> Result<T, String> {
    let r = std::panic::catch_unwind(std::panic::AssertUnwindSafe(f));
    r.map_err(|e| {
        let msg = if let Some(s) = e.downcast_ref::<&str>() {
            s.to_string()
        } else if let Some(s) = e.downcast_ref::<String>() {
            s.clone()
        } else {
            "panic".to_string()
        };
        format!("abort:{}", msg.chars().take(120).collect::<String>())
    })
}

/// Map the crate's error to the model's error-kind name.
pub fn err_kind(e: &ark_poly_commit::Error) -> String {
    use ark_poly_commit::Error::*;
    match e {
        MissingPolynomial { .. } => "missingPolynomial",
        MissingEvaluation { .. } => "missingEvaluation",
        MissingLHS { .. } => "missingLHS",
        MissingRng => "missingRng",
        DegreeIsZero => "degreeIsZero",
        TooManyCoefficients { .. } => "tooManyCoefficients",
        HidingBoundIsZero => "hidingBoundZero",
        HidingBoundToolarge { .. } => "hidingBoundTooLarge",
        TrimmingDegreeTooLarge => "trimTooLarge",
        EmptyDegreeBounds => "emptyDegreeBounds",
        EquationHasDegreeBounds(_) => "equationHasDegreeBounds",
        UnsupportedDegreeBound(_) => "unsupportedBound",
        IncorrectDegreeBound { .. } => "incorrectBound",
        IncorrectInputLength(_) => "incorrectInputLength",
        InvalidNumberOfVariables => "invalidNumVars",
        PolynomialDegreeTooLarge { .. } => "polynomialDegreeTooLarge",
        IncorrectCommitmentSize { .. } => "incorrectCommitmentSize",
        TranscriptError => "transcriptError",
        HashingError => "hashingError",
        EncodingError => "encodingError",
        MismatchedNumVars { .. } => "mismatchedNumVars",
        MismatchedLabels { .. } => "mismatchedLabels",
        InvalidCommitment => "invalidCommitment",
        InvalidParameters(_) => "invalidParameters",
    }
    .to_string()
}
