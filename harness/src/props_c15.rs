//! Property C15 — correspondence / expectation run (see DESIGN.md §5, C15).
use crate::Ctx;

pub fn run(ctx: &mut Ctx) {
    let _ = ctx;
}
