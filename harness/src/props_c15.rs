//! Property C15 — PST13 parameters cover every monomial; any multivariate polynomial opens.
//!
//! (i)   `Combinations` iterator (through `verif_hooks::combinations`) vs the Lean model and vs
//!       the brute-force list of sorted sub-multisets.
//! (ii)  the real `MarlinPST13::setup` on the (num_vars, max_degree) grid: trapdoor recovered by
//!       replaying a clone of the RNG and verified against `beta_h`; key set, element values,
//!       pairing relations, `trim`.
//! (iii) trapdoor mode: `UniversalParams` built from known scalars through its public fields;
//!       commit / open / check on dense and sparse mixed-monomial polynomials, with and without
//!       hiding, compared with the model element by element; mutated claims must be refused.
use crate::common::*;
use crate::wire::{self, Req, Val};
use crate::Ctx;
use ark_bls12_381::{Bls12_381, Fr, G1Affine};
use ark_ec::{pairing::Pairing, AffineRepr, CurveGroup};
use ark_ff::{Field, One, UniformRand, Zero};
use ark_poly::{
    multivariate::{SparsePolynomial, SparseTerm, Term},
    DenseMVPolynomial, Polynomial,
};
use ark_poly_commit::marlin_pst13_pc::{
    CommitterKey, MarlinPST13, Proof, Randomness, UniversalParams, VerifierKey,
};
use ark_poly_commit::{
    kzg10, marlin_pc, verif_hooks, LabeledCommitment, LabeledPolynomial, PolynomialCommitment,
};
use std::collections::{BTreeMap, BTreeSet};
use std::ops::Mul;

type MvPoly = SparsePolynomial<Fr, SparseTerm>;
type PC = MarlinPST13<Bls12_381, MvPoly>;
type PP = UniversalParams<Bls12_381, MvPoly>;
type CK = CommitterKey<Bls12_381, MvPoly>;
type VK = VerifierKey<Bls12_381>;
type Rand = Randomness<Bls12_381, MvPoly>;
type Comm = marlin_pc::Commitment<Bls12_381>;

// ------------------------------------------------------------------------------------------------
// wire forms
// ------------------------------------------------------------------------------------------------
fn term_val(t: &SparseTerm) -> Val {
    Val::L(
        t.iter()
            .map(|(v, p)| Val::L(vec![wire::nat(*v), wire::nat(*p)]))
            .collect(),
    )
}
fn terms_val<'a>(ts: impl Iterator<Item = &'a SparseTerm>) -> Val {
    Val::L(ts.map(term_val).collect())
}
fn poly_val(p: &MvPoly) -> Val {
    Val::L(
        p.terms()
            .iter()
            .map(|(c, t)| Val::L(vec![wire::fe(c), term_val(t)]))
            .collect(),
    )
}
fn polys_val(ps: &[MvPoly]) -> Val {
    Val::L(ps.iter().map(poly_val).collect())
}
fn natss_val(xs: &[Vec<usize>]) -> Val {
    Val::L(xs.iter().map(|x| wire::nats(x)).collect())
}

fn choose(n: usize, k: usize) -> usize {
    let mut r: u128 = 1;
    for i in 0..k {
        r = r * (n - i) as u128 / (i + 1) as u128;
    }
    r as usize
}

/// every exponent vector of total degree <= d in nv variables, as `SparseTerm`s (the harness' own
/// enumeration: plain nested counting, independent of the library's multiset iterator)
fn all_terms(nv: usize, d: usize) -> Vec<SparseTerm> {
    fn rec(var: usize, nv: usize, left: usize, cur: &mut Vec<(usize, usize)>, out: &mut Vec<SparseTerm>) {
        if var == nv {
            out.push(SparseTerm::new(cur.clone()));
            return;
        }
        for e in 0..=left {
            if e > 0 {
                cur.push((var, e));
            }
            rec(var + 1, nv, left - e, cur, out);
            if e > 0 {
                cur.pop();
            }
        }
    }
    let mut out = vec![];
    rec(0, nv, d, &mut vec![], &mut out);
    out
}

// ------------------------------------------------------------------------------------------------
// (i) the Combinations iterator
// ------------------------------------------------------------------------------------------------

/// all distinct sorted `k`-sub-multisets of `orig`, in lexicographic order (brute force over the
/// index subsets)
fn brute_submultisets(orig: &[usize], k: usize) -> Vec<Vec<usize>> {
    let mut s = orig.to_vec();
    s.sort();
    let n = s.len();
    let mut set = BTreeSet::new();
    for mask in 0u32..(1u32 << n) {
        if mask.count_ones() as usize == k {
            let v: Vec<usize> = (0..n).filter(|i| mask >> i & 1 == 1).map(|i| s[i]).collect();
            set.insert(v);
        }
    }
    set.into_iter().collect()
}

fn combination_case(ctx: &mut Ctx, id: &str, orig: Vec<usize>, k: usize, brute: bool) {
    let out = guarded(|| verif_hooks::combinations(orig.clone(), k));
    let valid = orig.len() > k && k >= 1;
    let req = Req::new("c15.combinations")
        .arg("orig", wire::nats(&orig))
        .arg("k", wire::nat(k));
    let desc = format!("combinations n={} k={} valid={}", orig.len(), k, valid);
    match &out {
        Ok(v) => {
            ctx.ses.ask(
                id,
                req,
                ImplOutcome::Ok(vec![("outs".into(), Expect::Raw(natss_val(v)))]),
            );
            if brute {
                let spec = brute_submultisets(&orig, k);
                if *v != spec {
                    ctx.rep.expect_fail(
                        id,
                        "pst13/combinations-not-all-submultisets",
                        &format!(
                            "Combinations({:?},{}) produced {} vectors, the sorted sub-multisets are {} (first difference at {:?})",
                            orig,
                            k,
                            v.len(),
                            spec.len(),
                            v.iter().zip(spec.iter()).position(|(a, b)| a != b)
                        ),
                        format!("# Combinations::new({:?}, {}).collect()\n# got  {:?}\n# want {:?}\n", orig, k, v, spec),
                    );
                }
            }
        }
        Err(a) => {
            ctx.ses.ask(id, req, ImplOutcome::Refuse(a.clone()));
            if valid {
                ctx.rep.expect_fail(
                    id,
                    "pst13/combinations-aborted",
                    &format!("Combinations({:?},{}) panicked: {}", orig, k, a),
                    format!("# Combinations::new({:?}, {}).collect() panicked: {}\n", orig, k, a),
                );
            }
        }
    }
    ctx.rep.count(if valid { "combinations/valid" } else { "combinations/refused" });
    ctx.rep.case(
        &desc,
        if valid && k >= 2 {
            let mut s = orig.clone();
            s.sort();
            Some(format!("comb/{:?}/{}", s, k))
        } else {
            None
        },
    );
}

fn run_combinations(ctx: &mut Ctx) {
    // the three unit tests of the crate and a few fixed shapes
    let fixed: Vec<(Vec<usize>, usize)> = vec![
        (vec![2, 2, 2], 2),
        (vec![1, 2, 3], 2),
        (vec![1, 2, 2, 3, 4], 3),
        (vec![4, 3, 2, 2, 1], 3),
        (vec![0, 0, 0, 0], 3),
        (vec![0, 1], 1),
        (vec![5], 1),
        (vec![], 0),
        (vec![1, 2], 0),
        (vec![1, 2], 2),
        (vec![1, 2], 3),
    ];
    for (i, (o, k)) in fixed.into_iter().enumerate() {
        combination_case(ctx, &format!("C15/comb-fixed/{}", i), o, k, true);
    }
    // exhaustive: every sorted list over {0,1,2} of length <= 6 (as multiplicity triples), every k
    let maxlen = if ctx.thorough { 7 } else { 5 };
    let mut idx = 0;
    for a in 0..=maxlen {
        for b in 0..=(maxlen - a) {
            for c in 0..=(maxlen - a - b) {
                let mut o = vec![0usize; a];
                o.extend(vec![1usize; b]);
                o.extend(vec![2usize; c]);
                for k in 1..o.len() {
                    combination_case(ctx, &format!("C15/comb-exh/{}", idx), o.clone(), k, true);
                    idx += 1;
                }
            }
        }
    }
    // the variable sets of `setup`
    for nv in 1..=4usize {
        for d in 1..=4usize {
            let vs: Vec<usize> = (0..nv).flat_map(|v| vec![v; d]).collect();
            for deg in 1..=d {
                if vs.len() != deg {
                    let brute = vs.len() <= 16;
                    combination_case(ctx, &format!("C15/comb-setup/{}-{}-{}", nv, d, deg), vs.clone(), deg, brute);
                }
            }
        }
    }
    // random, unsorted, including out-of-domain lengths
    let n = ctx.n(150, 2500);
    for i in 0..n {
        let mut rng = rng_for(ctx.seed, "C15/comb", i as u64);
        let len = range(&mut rng, 0, if ctx.thorough { 12 } else { 9 });
        let hi = range(&mut rng, 0, 5);
        let orig: Vec<usize> = (0..len).map(|_| range(&mut rng, 0, hi)).collect();
        let k = if range(&mut rng, 0, 9) == 0 {
            range(&mut rng, 0, len + 1)
        } else if len >= 2 {
            range(&mut rng, 1, len - 1)
        } else {
            range(&mut rng, 0, 2)
        };
        combination_case(ctx, &format!("C15/comb/{}", i), orig, k, true);
    }
    ctx.flush_model("C15-comb");
}

// ------------------------------------------------------------------------------------------------
// (ii) the real setup
// ------------------------------------------------------------------------------------------------

fn setup_case(ctx: &mut Ctx, nv: usize, d: usize, pair_budget: usize) {
    let id = format!("C15/setup/{}-{}", nv, d);
    let mut rng = rng_for(ctx.seed, "C15/setup", (nv * 16 + d) as u64);
    let mut replay = rng.clone();
    let replay_txt = format!(
        "# MarlinPST13::setup(max_degree={}, num_vars=Some({}), rng_for(seed={}, \"C15/setup\", {}))\n",
        d,
        nv,
        ctx.seed,
        nv * 16 + d
    );
    let pp: PP = match guarded(|| PC::setup(d, Some(nv), &mut rng)) {
        Ok(Ok(pp)) => pp,
        Ok(Err(e)) => {
            ctx.rep.expect_fail(&id, "pst13/setup-refused", &format!("setup refused an in-domain request: {}", e), replay_txt);
            return;
        }
        Err(a) => {
            ctx.rep.expect_fail(&id, "pst13/setup-aborted", &format!("setup aborted on an in-domain request: {}", a), replay_txt);
            return;
        }
    };
    // trapdoor: the first nv field draws — verified, not assumed
    let betas: Vec<Fr> = (0..nv).map(|_| Fr::rand(&mut replay)).collect();
    let recovered = pp.beta_h.len() == nv
        && betas
            .iter()
            .zip(pp.beta_h.iter())
            .all(|(b, bh)| pp.h.mul(*b).into_affine() == *bh);
    if !recovered {
        ctx.rep.model_disagreements.push(Failure {
            case_id: id.clone(),
            signature: "pst13/trapdoor-not-recovered".into(),
            what: "beta_h[i] != (i-th replayed field draw)·h: the setup no longer draws the trapdoor first, or beta_h is not the trapdoor in G2".into(),
            replay: replay_txt.clone(),
        });
        return;
    }
    let mut problems: Vec<String> = vec![];
    let one = SparseTerm::new(vec![]);
    let g = match pp.powers_of_g.get(&one) {
        Some(g) => *g,
        None => {
            ctx.rep.expect_fail(&id, "pst13/setup-key-set", "the constant monomial is missing from powers_of_g", replay_txt);
            return;
        }
    };
    // key set == all exponent vectors of total degree <= d
    let want: BTreeSet<SparseTerm> = all_terms(nv, d).into_iter().collect();
    let have: BTreeSet<SparseTerm> = pp.powers_of_g.keys().cloned().collect();
    if want.len() != choose(nv + d, d) {
        problems.push("harness enumeration has the wrong size".into());
    }
    if pp.powers_of_g.len() != choose(nv + d, d) {
        problems.push(format!("powers_of_g has {} elements, C({}+{},{}) = {}", pp.powers_of_g.len(), nv, d, d, choose(nv + d, d)));
    }
    if have != want {
        let missing: Vec<_> = want.difference(&have).take(3).collect();
        let extra: Vec<_> = have.difference(&want).take(3).collect();
        problems.push(format!("key set differs from the monomials of degree <= {}: missing {:?} extra {:?}", d, missing, extra));
    }
    if pp.num_vars != nv || pp.max_degree != d {
        problems.push("num_vars / max_degree fields differ from the request".into());
    }
    // every element is the generator scaled by the monomial at the common trapdoor point
    let mut vals = vec![];
    for (t, el) in pp.powers_of_g.iter() {
        let tv: Fr = t.evaluate(&betas);
        vals.push(tv);
        if g.mul(tv).into_affine() != *el {
            problems.push(format!("powers_of_g[{:?}] != t(beta)·g", t));
            break;
        }
    }
    // gamma rows
    let mut grows: Vec<Vec<Fr>> = vec![];
    if pp.powers_of_gamma_g.len() != nv {
        problems.push("powers_of_gamma_g has the wrong number of rows".into());
    }
    for (i, row) in pp.powers_of_gamma_g.iter().enumerate() {
        if row.len() != d + 1 {
            problems.push(format!("powers_of_gamma_g[{}] has {} entries, expected {}", i, row.len(), d + 1));
        }
        let mut cur = Fr::one();
        let mut r = vec![];
        for el in row.iter() {
            cur *= betas.get(i).copied().unwrap_or(Fr::zero());
            r.push(cur);
            if pp.gamma_g.mul(cur).into_affine() != *el {
                problems.push(format!("powers_of_gamma_g[{}][{}] != beta_i^(j+1)·gamma_g", i, r.len() - 1));
                break;
            }
        }
        grows.push(r);
    }
    // pairing relations e(G[m·x_i], h) == e(G[m], beta_i h)
    let lower: Vec<&SparseTerm> = pp.powers_of_g.keys().filter(|t| t.degree() + 1 <= d).collect();
    let total_pairs = lower.len() * nv;
    let mut done = 0;
    let step = std::cmp::max(1, total_pairs / std::cmp::max(1, pair_budget));
    let mut k = (nv * 7 + d) % step;
    while k < total_pairs {
        let m = lower[k / nv];
        let i = k % nv;
        let mut v = m.to_vec();
        v.push((i, 1));
        let mx = SparseTerm::new(v);
        match (pp.powers_of_g.get(&mx), pp.powers_of_g.get(m)) {
            (Some(a), Some(b)) => {
                if Bls12_381::pairing(*a, pp.h) != Bls12_381::pairing(*b, pp.beta_h[i]) {
                    problems.push(format!("e(G[{:?}], h) != e(G[{:?}], beta_{} h)", mx, m, i));
                }
            }
            _ => problems.push(format!("monomial {:?}·x_{} missing", m, i)),
        }
        done += 1;
        k += step;
    }
    ctx.rep.count(&format!("setup/pairings-checked-{}", if done == total_pairs { "all" } else { "sample" }));
    if !problems.is_empty() {
        ctx.rep.expect_fail(
            &id,
            "pst13/setup-key-wrong",
            &problems.join("; "),
            format!("{}# {}\n", replay_txt, problems.join("\n# ")),
        );
    }
    // model: term set in BTreeMap order, monomial values at the trapdoor, gamma rows, beta_h
    ctx.ses.ask(
        &id,
        Req::new("c15.setup_terms")
            .arg("nv", wire::nat(nv))
            .arg("d", wire::nat(d))
            .arg("betas", wire::fes(&betas)),
        ImplOutcome::Ok(vec![
            ("count".into(), Expect::Nat(pp.powers_of_g.len())),
            ("keys".into(), Expect::Raw(terms_val(pp.powers_of_g.keys()))),
            ("vals".into(), Expect::Fes(vals.clone())),
            ("grows".into(), Expect::Raw(wire::fess(&grows))),
            ("bh".into(), Expect::Fes(betas.clone())),
        ]),
    );
    ctx.rep.case(&format!("setup nv={} D={} terms={}", nv, d, pp.powers_of_g.len()), Some(format!("setup/{}/{}", nv, d)));

    // trim: every supported degree 0..=d, and d+1 (refused)
    for s in 0..=d + 1 {
        let tid = format!("{}/trim-{}", id, s);
        let out = guarded(|| PC::trim(&pp, s, 0, None));
        let req = Req::new("c15.trim")
            .arg("nv", wire::nat(nv))
            .arg("d", wire::nat(d))
            .arg("s", wire::nat(s))
            .arg("betas", wire::fes(&betas))
            .arg("g", wire::fe(&Fr::one()))
            .arg("gamma", wire::fe(&Fr::one()))
            .arg("h", wire::fe(&Fr::one()));
        match out {
            Ok(Ok((ck, vk))) => {
                let mut tp: Vec<String> = vec![];
                let want_s: BTreeSet<SparseTerm> = want.iter().filter(|t| t.degree() <= s).cloned().collect();
                let have_s: BTreeSet<SparseTerm> = ck.powers_of_g.keys().cloned().collect();
                if have_s != want_s {
                    tp.push(format!("trimmed key set is not the monomials of degree <= {}", s));
                }
                if ck.powers_of_g.iter().any(|(t, el)| pp.powers_of_g.get(t) != Some(el)) {
                    tp.push("a trimmed element differs from the universal one".into());
                }
                if ck.powers_of_gamma_g.len() != nv
                    || ck
                        .powers_of_gamma_g
                        .iter()
                        .zip(pp.powers_of_gamma_g.iter())
                        .any(|(a, b)| a.len() != s + 1 || a[..] != b[..=s])
                {
                    tp.push("trimmed gamma rows are not the first s+1 entries".into());
                }
                if vk.g != g || vk.gamma_g != pp.gamma_g || vk.h != pp.h || vk.beta_h != pp.beta_h
                    || ck.gamma_g != pp.gamma_g || ck.num_vars != nv || vk.num_vars != nv
                    || ck.supported_degree != s || vk.supported_degree != s
                    || ck.max_degree != d || vk.max_degree != d
                {
                    tp.push("verifier/committer key fields differ from the parameters".into());
                }
                if s > d {
                    tp.push("trim accepted supported_degree > max_degree".into());
                }
                if !tp.is_empty() {
                    ctx.rep.expect_fail(&tid, "pst13/trim-wrong", &tp.join("; "), format!("{}# trim(pp, {}, 0, None)\n# {}\n", replay_txt, s, tp.join("\n# ")));
                }
                let tvals: Vec<Fr> = ck.powers_of_g.keys().map(|t| t.evaluate(&betas)).collect();
                let trows: Vec<Vec<Fr>> = grows.iter().map(|r| r[..std::cmp::min(s + 1, r.len())].to_vec()).collect();
                ctx.ses.ask(
                    &tid,
                    req,
                    ImplOutcome::Ok(vec![
                        ("keys".into(), Expect::Raw(terms_val(ck.powers_of_g.keys()))),
                        ("vals".into(), Expect::Fes(tvals)),
                        ("grows".into(), Expect::Raw(wire::fess(&trows))),
                        ("bh".into(), Expect::Fes(betas.clone())),
                    ]),
                );
            }
            Ok(Err(e)) => {
                if s <= d {
                    ctx.rep.expect_fail(&tid, "pst13/trim-refused", &format!("trim refused supported_degree {} <= {}: {}", s, d, e), replay_txt.clone());
                }
                ctx.ses.ask(&tid, req, ImplOutcome::Refuse(err_kind(&e)));
            }
            Err(a) => {
                ctx.rep.expect_fail(&tid, "pst13/trim-aborted", &format!("trim aborted: {}", a), replay_txt.clone());
                ctx.ses.ask(&tid, req, ImplOutcome::Refuse(a));
            }
        }
        ctx.rep.count(if s <= d { "trim/in-domain" } else { "trim/too-large" });
        ctx.rep.case(&format!("trim nv={} D={} s={}", nv, d, s), Some(format!("trim/{}/{}/{}", nv, d, s)));
    }
}

fn run_setup(ctx: &mut Ctx) {
    for nv in 1..=6usize {
        for d in 1..=6usize {
            let id = format!("C15/setup/{}-{}", nv, d);
            if !ctx.selected(&id) {
                continue;
            }
            // quick: the whole grid as well (it is cheap), with a smaller pairing sample
            let budget = if ctx.thorough { 300 } else { 16 };
            setup_case(ctx, nv, d, budget);
        }
        ctx.flush_model(&format!("C15-setup-{}", nv));
    }
    // out-of-domain requests are refused, by the model as well
    for (nv, d) in [(0usize, 2usize), (2, 0)] {
        let mut rng = rng_for(ctx.seed, "C15/setup-bad", (nv * 16 + d) as u64);
        let out = guarded(|| PC::setup(d, Some(nv), &mut rng));
        let id = format!("C15/setup-bad/{}-{}", nv, d);
        let req = Req::new("c15.setup_terms")
            .arg("nv", wire::nat(nv))
            .arg("d", wire::nat(d))
            .arg("betas", wire::fes::<Fr>(&[]));
        match out {
            Ok(Ok(_)) => ctx.rep.expect_fail(&id, "pst13/setup-accepted-bad", "setup accepted num_vars = 0 or max_degree = 0", format!("# setup({}, Some({}))\n", d, nv)),
            Ok(Err(e)) => ctx.ses.ask(&id, req, ImplOutcome::Refuse(err_kind(&e))),
            Err(a) => ctx.ses.ask(&id, req, ImplOutcome::Refuse(a)),
        }
        ctx.rep.case(&format!("setup refused nv={} D={}", nv, d), None);
    }
    ctx.flush_model("C15-setup-bad");
}

// ------------------------------------------------------------------------------------------------
// (iii) trapdoor mode
// ------------------------------------------------------------------------------------------------

#[derive(Clone)]
struct Trap {
    nv: usize,
    d: usize,
    betas: Vec<Fr>,
    g: Fr,
    gamma: Fr,
    h: Fr,
}

impl Trap {
    fn random(rng: &mut Rng, nv: usize, d: usize) -> Self {
        Trap {
            nv,
            d,
            betas: (0..nv).map(|_| rand_nonzero(rng)).collect(),
            g: rand_nonzero(rng),
            gamma: rand_nonzero(rng),
            h: rand_nonzero(rng),
        }
    }
    /// the parameters `setup` would publish for this trapdoor, built through the public fields
    fn params(&self) -> PP {
        let terms = all_terms(self.nv, self.d);
        let scalars: Vec<Fr> = terms.iter().map(|t| self.g * t.evaluate::<Fr>(&self.betas)).collect();
        let powers_of_g: BTreeMap<SparseTerm, G1Affine> = terms.into_iter().zip(g1s(&scalars)).collect();
        let powers_of_gamma_g: Vec<Vec<G1Affine>> = (0..self.nv)
            .map(|i| {
                let mut cur = self.gamma;
                let mut row = vec![];
                for _ in 0..=self.d {
                    cur *= self.betas[i];
                    row.push(cur);
                }
                g1s(&row)
            })
            .collect();
        let h = g2(self.h);
        let beta_h: Vec<_> = self.betas.iter().map(|b| g2(self.h * b)).collect();
        UniversalParams {
            powers_of_g,
            gamma_g: g1(self.gamma),
            powers_of_gamma_g,
            h,
            prepared_h: h.into(),
            prepared_beta_h: beta_h.iter().map(|x| (*x).into()).collect(),
            beta_h,
            num_vars: self.nv,
            max_degree: self.d,
        }
    }
    fn key_args(&self, r: Req, s: usize) -> Req {
        r.arg("nv", wire::nat(self.nv))
            .arg("d", wire::nat(self.d))
            .arg("s", wire::nat(s))
            .arg("betas", wire::fes(&self.betas))
            .arg("g", wire::fe(&self.g))
            .arg("gamma", wire::fe(&self.gamma))
            .arg("h", wire::fe(&self.h))
    }
    fn desc(&self) -> String {
        format!(
            "# trapdoor: nv={} D={} betas={} g={} gamma={} h={}\n",
            self.nv,
            self.d,
            wire::fes(&self.betas),
            wire::fe(&self.g),
            wire::fe(&self.gamma),
            wire::fe(&self.h)
        )
    }
}

/// polynomial generator: dense over all monomials, random sparse mixed monomials, the library's
/// own `rand` (sum of univariates), single mixed monomial of full degree, zero, constant
fn gen_poly(rng: &mut Rng, nv: usize, deg: usize) -> (MvPoly, &'static str) {
    match range(rng, 0, 11) {
        0 | 1 | 2 | 3 => {
            let ts = all_terms(nv, deg);
            let terms = ts.into_iter().map(|t| (Fr::rand(rng), t)).collect();
            (MvPoly::from_coefficients_vec(nv, terms), "dense")
        }
        4 | 5 | 6 | 7 => {
            let ts = all_terms(nv, deg);
            let n = range(rng, 1, std::cmp::min(8, ts.len()));
            let mut terms = vec![];
            for _ in 0..n {
                let t = ts[range(rng, 0, ts.len() - 1)].clone();
                terms.push((Fr::rand(rng), t));
            }
            (MvPoly::from_coefficients_vec(nv, terms), "sparse")
        }
        8 => (MvPoly::rand(deg, nv, rng), "univariate-sum"),
        9 => {
            // one monomial of total degree exactly deg spread over the variables
            let mut t = vec![0usize; nv];
            for _ in 0..deg {
                t[range(rng, 0, nv - 1)] += 1;
            }
            let term = SparseTerm::new(t.into_iter().enumerate().collect());
            (MvPoly::from_coefficients_vec(nv, vec![(rand_nonzero(rng), term), (Fr::rand(rng), SparseTerm::new(vec![]))]), "monomial")
        }
        10 => (MvPoly::from_coefficients_vec(nv, vec![]), "zero"),
        _ => (MvPoly::from_coefficients_vec(nv, vec![(Fr::rand(rng), SparseTerm::new(vec![]))]), "constant"),
    }
}

fn coeff_of(p: &MvPoly, t: &SparseTerm) -> Fr {
    p.terms().iter().find(|(_, u)| u == t).map(|(c, _)| *c).unwrap_or(Fr::zero())
}

/// the draws that produce `blind` in `SparsePolynomial::rand(hb + 1, nv, _)` (a dropped term is a
/// zero draw)
fn draws_of(blind: &MvPoly, nv: usize, hb: usize) -> Vec<Fr> {
    let mut v = vec![coeff_of(blind, &SparseTerm::new(vec![]))];
    for var in 0..nv {
        for deg in 1..=hb + 1 {
            v.push(coeff_of(blind, &SparseTerm::new(vec![(var, deg)])));
        }
    }
    v
}

fn lcomm(label: &str, c: G1Affine) -> LabeledCommitment<Comm> {
    LabeledCommitment::new(
        label.to_string(),
        marlin_pc::Commitment {
            comm: kzg10::Commitment(c),
            shifted_comm: None,
        },
        None,
    )
}

fn check_impl(vk: &VK, comms: &[LabeledCommitment<Comm>], z: &Vec<Fr>, vs: &[Fr], proof: &Proof<Bls12_381>, sponge: &LogSponge) -> (ImplOutcome, Vec<Fr>) {
    let mut sp = sponge.clone();
    let out = guarded(|| PC::check(vk, comms, z, vs.to_vec(), proof, &mut sp, None));
    let xis = sp.challenges();
    let o = match out {
        Ok(Ok(b)) => ImplOutcome::Ok(vec![("b".into(), Expect::Bool(b))]),
        Ok(Err(e)) => ImplOutcome::Refuse(err_kind(&e)),
        Err(a) => ImplOutcome::Refuse(a),
    };
    (o, xis)
}

fn accepted(o: &ImplOutcome) -> bool {
    matches!(o, ImplOutcome::Ok(kvs) if kvs.iter().any(|(k, e)| k == "b" && matches!(e, Expect::Bool(true))))
}

/// `w_i(beta)` of the sequential division, by evaluation only:
/// `(f(z_<i, beta_>=i) - f(z_<=i, beta_>i)) / (beta_i - z_i)`
fn quotient_at(f: &MvPoly, z: &[Fr], betas: &[Fr], i: usize) -> Option<Fr> {
    let mut a: Vec<Fr> = betas.to_vec();
    for j in 0..i {
        a[j] = z[j];
    }
    let mut b = a.clone();
    b[i] = z[i];
    let den = (betas[i] - z[i]).inverse()?;
    Some((f.evaluate(&a) - f.evaluate(&b)) * den)
}

fn trapdoor_case(ctx: &mut Ctx, tag: &str, i: usize) {
    let id = format!("{}/pst13/{}", tag, i);
    if !ctx.selected(&id) {
        return;
    }
    let mut rng = rng_for(ctx.seed, &format!("{}/pst13", tag), i as u64);
    let (max_nv, max_d) = if ctx.thorough { (5, 5) } else { (3, 4) };
    let nv = if range(&mut rng, 0, 5) == 0 { 1 } else { range(&mut rng, 2, max_nv) };
    let d = if range(&mut rng, 0, 5) == 0 { 1 } else { range(&mut rng, 2, max_d) };
    let s = if range(&mut rng, 0, 2) > 0 { d } else { range(&mut rng, 1, d) };
    let trap = Trap::random(&mut rng, nv, d);
    let pp = trap.params();
    let head = format!("{}# supported_degree={} case={} seed={}\n", trap.desc(), s, id, ctx.seed);
    let (ck, vk): (CK, VK) = match guarded(|| PC::trim(&pp, s, 0, None)) {
        Ok(Ok(x)) => x,
        other => {
            ctx.rep.expect_fail(&id, "pst13/trim-refused", &format!("trim refused in-domain parameters: {:?}", other.err()), head);
            return;
        }
    };
    // the model derives the same keys from the scalars with its own setup + trim
    if i % 8 == 0 {
        let kscal: Vec<Fr> = ck.powers_of_g.keys().map(|t| trap.g * t.evaluate::<Fr>(&trap.betas)).collect();
        let _ = kscal;
        ctx.ses.ask(
            &format!("{}/keys", id),
            trap.key_args(Req::new("c15.trim"), s),
            ImplOutcome::Ok(vec![
                ("keys".into(), Expect::Raw(terms_val(ck.powers_of_g.keys()))),
                ("vals".into(), Expect::G1s(ck.powers_of_g.values().cloned().collect())),
                ("g".into(), Expect::G1(vk.g)),
                ("gamma_g".into(), Expect::G1(vk.gamma_g)),
                ("h".into(), Expect::G2(vk.h)),
            ]),
        );
    }
    let npoly = if range(&mut rng, 0, 2) == 0 { range(&mut rng, 2, 3) } else { 1 };
    let mut polys: Vec<LabeledPolynomial<Fr, MvPoly>> = vec![];
    let mut kinds = vec![];
    let mut hbs = vec![];
    for j in 0..npoly {
        let deg = if range(&mut rng, 0, 2) > 0 { s } else { range(&mut rng, 0, s) };
        let (p, kind) = gen_poly(&mut rng, nv, deg);
        let hb = if coin(&mut rng) { Some(range(&mut rng, 1, s)) } else { None };
        kinds.push(kind);
        hbs.push(hb);
        polys.push(LabeledPolynomial::new(format!("p{}", j), p, None, hb));
    }
    let desc = format!("pst13 nv={} D={} s={} polys={:?} hiding={:?}", nv, d, s, kinds, hbs);
    let ptxt = format!(
        "{}# polynomials: {}\n# hiding bounds: {:?}\n",
        head,
        polys_val(&polys.iter().map(|p| p.polynomial().clone()).collect::<Vec<_>>()),
        hbs
    );
    // commit
    let (comms, states): (Vec<LabeledCommitment<Comm>>, Vec<Rand>) = match guarded(|| PC::commit(&ck, polys.iter(), Some(&mut rng))) {
        Ok(Ok(x)) => x,
        other => {
            ctx.rep.expect_fail(
                &id,
                "pst13/commit-refused",
                &format!("commit refused a polynomial within the supported degree: {:?}", other.err().or(Some("Err".into()))),
                ptxt,
            );
            ctx.rep.case(&desc, None);
            return;
        }
    };
    let mut c_scalars = vec![];
    let mut key_defined = true;
    for j in 0..npoly {
        let p = polys[j].polynomial();
        let blind = &states[j].blinding_polynomial;
        let draws = match hbs[j] {
            Some(hb) => draws_of(blind, nv, hb),
            None => vec![],
        };
        ctx.ses.ask(
            &format!("{}/commit{}", id, j),
            trap.key_args(Req::new("c15.commit"), s)
                .arg("p", poly_val(p))
                .arg("hb", wire::opt_nat(hbs[j]))
                .arg("rng", wire::boolean(true))
                .arg("draws", wire::fes(&draws)),
            ImplOutcome::Ok(vec![
                ("c".into(), Expect::G1(comms[j].commitment().comm.0)),
                ("blind".into(), Expect::Raw(poly_val(blind))),
            ]),
        );
        let cs = trap.g * p.evaluate(&trap.betas) + trap.gamma * blind.evaluate(&trap.betas);
        if g1(cs) != comms[j].commitment().comm.0 {
            key_defined = false;
            ctx.rep.expect_fail(
                &id,
                "pst13/commitment-not-key-defined",
                &format!("commitment {} != g·p(beta) + gamma·r(beta)", j),
                ptxt.clone(),
            );
        }
        if hbs[j].is_some() != !blind.is_zero() {
            ctx.rep.count("pst13/blinding-zero-with-hiding");
        }
        c_scalars.push(cs);
        ctx.rep.count(&format!("pst13/poly-{}", kinds[j]));
        ctx.rep.count(if hbs[j].is_some() { "pst13/hiding" } else { "pst13/non-hiding" });
        // evaluation and degree of the model's polynomial type
        if j == 0 {
            let zz: Vec<Fr> = (0..nv).map(|_| Fr::rand(&mut rng)).collect();
            ctx.ses.ask(
                &format!("{}/eval", id),
                Req::new("c15.eval").arg("p", poly_val(p)).arg("z", wire::fes(&zz)),
                ImplOutcome::Ok(vec![
                    ("v".into(), Expect::Fe(p.evaluate(&zz))),
                    ("deg".into(), Expect::Nat(p.degree())),
                ]),
            );
        }
    }
    // open at a random point (sometimes with zero / repeated coordinates)
    let mut z: Vec<Fr> = (0..nv).map(|_| Fr::rand(&mut rng)).collect();
    match range(&mut rng, 0, 7) {
        0 => z[range(&mut rng, 0, nv - 1)] = Fr::zero(),
        1 => {
            let c = z[0];
            for x in z.iter_mut() {
                *x = c;
            }
        }
        _ => {}
    }
    let mut sponge = fresh();
    sponge.absorb_seed(i as u64);
    let vsponge = sponge.clone();
    let proof: Proof<Bls12_381> = match guarded(|| PC::open(&ck, polys.iter(), comms.iter(), &z, &mut sponge, states.iter(), None)) {
        Ok(Ok(p)) => p,
        other => {
            ctx.rep.expect_fail(
                &id,
                "pst13/open-refused",
                &format!("open refused a committed polynomial: {:?}", other.err().or(Some("Err".into()))),
                format!("{}# point {}\n", ptxt, wire::fes(&z)),
            );
            ctx.rep.case(&desc, None);
            return;
        }
    };
    let xis = sponge.challenges();
    let any_hiding = hbs.iter().any(|h| h.is_some());
    let plain: Vec<MvPoly> = polys.iter().map(|p| p.polynomial().clone()).collect();
    let blinds: Vec<MvPoly> = states.iter().map(|s| s.blinding_polynomial.clone()).collect();
    ctx.ses.ask(
        &format!("{}/open", id),
        trap.key_args(Req::new("c15.open"), s)
            .arg("nvp", wire::nat(nv))
            .arg("nvr", wire::nat(if any_hiding { nv } else { 0 }))
            .arg("ps", polys_val(&plain))
            .arg("z", wire::fes(&z))
            .arg("rs", polys_val(&blinds))
            .arg("xis", wire::fes(&xis)),
        ImplOutcome::Ok(vec![
            ("w".into(), Expect::G1s(proof.w.clone())),
            ("rv".into(), Expect::OptFe(proof.random_v)),
        ]),
    );
    if xis.len() != npoly {
        ctx.rep.count("pst13/unexpected-squeeze-count");
    }
    // witness scalars by evaluation (needs beta_i != z_i)
    let mut w_scalars: Option<Vec<Fr>> = Some(vec![]);
    if xis.len() == npoly {
        for v in 0..nv {
            let mut acc = Fr::zero();
            let mut ok = true;
            for j in 0..npoly {
                match (quotient_at(&plain[j], &z, &trap.betas, v), quotient_at(&blinds[j], &z, &trap.betas, v)) {
                    (Some(a), Some(b)) => acc += xis[j] * (trap.g * a + trap.gamma * b),
                    _ => ok = false,
                }
            }
            match (&mut w_scalars, ok) {
                (Some(ws), true) => ws.push(acc),
                _ => w_scalars = None,
            }
        }
    } else {
        w_scalars = None;
    }
    if let Some(ws) = &w_scalars {
        if proof.w.len() != nv || ws.iter().zip(proof.w.iter()).any(|(s, w)| g1(*s) != *w) {
            ctx.rep.count("pst13/witness-differs-from-sequential-quotient");
            w_scalars = None;
        }
    }
    let values: Vec<Fr> = plain.iter().map(|p| p.evaluate(&z)).collect();
    let (out, vxis) = check_impl(&vk, &comms, &z, &values, &proof, &vsponge);
    if !accepted(&out) {
        ctx.rep.expect_fail(
            &id,
            "pst13/honest-rejected",
            &format!("honest proof of a true claim was not accepted: {:?}", out),
            format!("{}# point {}\n# values {}\n", ptxt, wire::fes(&z), wire::fes(&values)),
        );
    }
    let ask_check = |ctx: &mut Ctx, cid: &str, cs: &[Fr], z: &[Fr], vs: &[Fr], ws: &[Fr], rv: &Option<Fr>, xis: &[Fr], out: ImplOutcome| {
        ctx.ses.ask(
            cid,
            trap.key_args(Req::new("c15.check"), s)
                .arg("cs", wire::fes(cs))
                .arg("z", wire::fes(z))
                .arg("vs", wire::fes(vs))
                .arg("w", wire::fes(ws))
                .arg("rv", wire::opt_fe(rv))
                .arg("xis", wire::fes(xis)),
            out,
        );
    };
    if let (Some(ws), true) = (&w_scalars, key_defined) {
        ask_check(ctx, &format!("{}/check", id), &c_scalars, &z, &values, ws, &proof.random_v, &vxis, out.clone());
        // mutated claims
        // (1) value + delta
        let j = range(&mut rng, 0, npoly - 1);
        let mut vs2 = values.clone();
        vs2[j] += rand_nonzero(&mut rng);
        let (o2, x2) = check_impl(&vk, &comms, &z, &vs2, &proof, &vsponge);
        if accepted(&o2) {
            ctx.rep.expect_fail(&id, "pst13/false-value-accepted", "value + delta accepted with the honest proof", format!("{}# point {}\n# claimed values {}\n", ptxt, wire::fes(&z), wire::fes(&vs2)));
        }
        ask_check(ctx, &format!("{}/mut-value", id), &c_scalars, &z, &vs2, ws, &proof.random_v, &x2, o2);
        // (2) another point
        let mut z2 = z.clone();
        let v = range(&mut rng, 0, nv - 1);
        z2[v] += rand_nonzero(&mut rng);
        let claim_false = plain.iter().zip(values.iter()).any(|(p, val)| p.evaluate(&z2) != *val);
        let (o3, x3) = check_impl(&vk, &comms, &z2, &values, &proof, &vsponge);
        if claim_false && accepted(&o3) {
            ctx.rep.expect_fail(&id, "pst13/false-point-accepted", "claim at another point accepted with the honest proof", format!("{}# proof for {}\n# checked at {}\n", ptxt, wire::fes(&z), wire::fes(&z2)));
        }
        ask_check(ctx, &format!("{}/mut-point", id), &c_scalars, &z2, &values, ws, &proof.random_v, &x3, o3);
        ctx.rep.count(if claim_false { "pst13/mut-point-false" } else { "pst13/mut-point-still-true" });
        // (3) another commitment: to a different polynomial, or a random element
        let mut cs2 = c_scalars.clone();
        let what = if coin(&mut rng) {
            let (q, _) = gen_poly(&mut rng, nv, s);
            let q = &q + &MvPoly::from_coefficients_vec(nv, vec![(rand_nonzero(&mut rng), SparseTerm::new(vec![(0, 1)]))]);
            cs2[j] = trap.g * q.evaluate(&trap.betas);
            if q.evaluate(&z) == values[j] && states[j].blinding_polynomial.is_zero() {
                // the changed commitment still opens to the claimed value only by accident
                ctx.rep.count("pst13/mut-comm-coincidence");
            }
            "other-poly"
        } else {
            cs2[j] = Fr::rand(&mut rng);
            "random"
        };
        let mut comms2 = comms.clone();
        comms2[j] = lcomm(comms[j].label(), g1(cs2[j]));
        let (o4, x4) = check_impl(&vk, &comms2, &z, &values, &proof, &vsponge);
        if accepted(&o4) && cs2[j] != c_scalars[j] {
            ctx.rep.expect_fail(&id, "pst13/other-commitment-accepted", &format!("honest proof accepted against another commitment ({})", what), format!("{}# commitment {} replaced by scalar {}\n", ptxt, j, wire::fe(&cs2[j])));
        }
        ask_check(ctx, &format!("{}/mut-comm", id), &cs2, &z, &values, ws, &proof.random_v, &x4, o4);
        ctx.rep.count(&format!("pst13/mut-comm-{}", what));
    }
    let mixed = plain.iter().any(|p| p.terms().iter().any(|(_, t)| t.len() >= 2));
    ctx.rep.case(
        &desc,
        Some(format!("pst13/{}/{}/{}/{:?}/{:?}/{}", nv, d, s, kinds, hbs.iter().map(|h| h.is_some()).collect::<Vec<_>>(), mixed)),
    );
    if mixed {
        ctx.rep.count("pst13/has-mixed-monomial");
    }
}

fn fresh() -> LogSponge {
    LogSponge::fresh()
}

/// requests the committer must refuse: hiding bound 0 / too large, degree above the supported one,
/// hiding without an RNG (a panic in `OptionalRng`)
fn refusal_case(ctx: &mut Ctx, i: usize) {
    let id = format!("C15/pst13-refuse/{}", i);
    let mut rng = rng_for(ctx.seed, "C15/pst13-refuse", i as u64);
    let nv = range(&mut rng, 1, 3);
    let d = range(&mut rng, 2, 4);
    let s = range(&mut rng, 1, d - 1);
    let trap = Trap::random(&mut rng, nv, d);
    let pp = trap.params();
    let (ck, _vk): (CK, VK) = match guarded(|| PC::trim(&pp, s, 0, None)) {
        Ok(Ok(x)) => x,
        _ => return,
    };
    let kind = i % 4;
    let (p, hb, with_rng, what) = match kind {
        0 => (gen_poly(&mut rng, nv, s).0, Some(0usize), true, "hiding-bound-zero"),
        1 => (gen_poly(&mut rng, nv, s).0, Some(s + 1 + range(&mut rng, 0, 2)), true, "hiding-bound-too-large"),
        2 => {
            let mut t = vec![(0usize, s + 1)];
            if nv > 1 && s >= 1 {
                t = vec![(0, s), (1, 1)];
            }
            (MvPoly::from_coefficients_vec(nv, vec![(rand_nonzero(&mut rng), SparseTerm::new(t))]), None, true, "degree-too-large")
        }
        _ => (gen_poly(&mut rng, nv, s).0, Some(range(&mut rng, 1, s)), false, "hiding-without-rng"),
    };
    let lp = LabeledPolynomial::new("p".to_string(), p.clone(), None, hb);
    let out = if with_rng {
        guarded(|| PC::commit(&ck, [&lp], Some(&mut rng)))
    } else {
        guarded(|| PC::commit(&ck, [&lp], None))
    };
    let draws: Vec<Fr> = (0..1 + nv * (hb.unwrap_or(0) + 1)).map(|_| Fr::rand(&mut rng)).collect();
    let req = trap
        .key_args(Req::new("c15.commit"), s)
        .arg("p", poly_val(&p))
        .arg("hb", wire::opt_nat(hb))
        .arg("rng", wire::boolean(with_rng))
        .arg("draws", wire::fes(&draws));
    match out {
        Ok(Ok(_)) => {
            ctx.rep.expect_fail(&id, &format!("pst13/commit-accepted-{}", what), &format!("commit accepted an out-of-domain request ({})", what), format!("{}# s={} p={} hb={:?}\n", trap.desc(), s, poly_val(&p), hb));
        }
        Ok(Err(e)) => ctx.ses.ask(&id, req, ImplOutcome::Refuse(err_kind(&e))),
        Err(a) => ctx.ses.ask(&id, req, ImplOutcome::Refuse(a)),
    }
    ctx.rep.count(&format!("pst13/refusal-{}", what));
    ctx.rep.case(&format!("pst13 refusal {} nv={} D={} s={}", what, nv, d, s), None);
}

// ------------------------------------------------------------------------------------------------
// batches through `batch_open` / `check` / `batch_check` (C01, C02, C05, and the
// fewer-declared-variables cases of C15)
// ------------------------------------------------------------------------------------------------

#[derive(Clone, Copy, PartialEq, Eq, Debug)]
enum Declared {
    /// every polynomial declared over the key's variables
    Full,
    /// every polynomial declared over 0..nv-1 variables (0: the zero polynomial)
    Fewer,
}

/// One batch: `npoly` committed polynomials, `npoints` point labels each querying a non-empty subset,
/// the values at the positions in `false_at` (indices into the sorted query list) moved by a
/// non-zero delta.  Runs `batch_open`, the individual `check`s on the running sponge (so each sees
/// the challenges it sees inside the batch), and `batch_check`; compares all three with the model
/// and with the expectations: all-true => accepted, some false => rejected, batch == AND(checks).
fn batch_case(ctx: &mut Ctx, id: &str, rng: &mut Rng, declared: Declared, n_false: usize, single: bool) {
    if !ctx.selected(id) {
        return;
    }
    let (max_nv, max_d) = if ctx.thorough { (4, 4) } else { (3, 3) };
    let nv = match declared {
        Declared::Fewer => range(rng, 2, max_nv),
        Declared::Full => range(rng, 1, max_nv),
    };
    let d = range(rng, 1, max_d);
    let s = if coin(rng) { d } else { range(rng, 1, d) };
    let trap = Trap::random(rng, nv, d);
    let pp = trap.params();
    let head = format!("{}# supported_degree={} case={} seed={}\n", trap.desc(), s, id, ctx.seed);
    let fail_sig = |what: &str| -> String {
        if declared == Declared::Fewer {
            "pst13/fewer-declared-variables".to_string()
        } else {
            format!("pst13/{}", what)
        }
    };
    let (ck, vk): (CK, VK) = match guarded(|| PC::trim(&pp, s, 0, None)) {
        Ok(Ok(x)) => x,
        _ => return,
    };
    let npoly = if single { 1 } else { range(rng, 1, 4) };
    let npoints = if single { 1 } else { range(rng, 1, 3) };
    let mut polys: Vec<LabeledPolynomial<Fr, MvPoly>> = vec![];
    let mut hbs = vec![];
    let mut decl = vec![];
    for j in 0..npoly {
        let deg = if coin(rng) { s } else { range(rng, 0, s) };
        let p = match declared {
            Declared::Full => gen_poly(rng, nv, deg).0,
            Declared::Fewer => {
                let nvp = range(rng, 0, nv - 1);
                if nvp == 0 {
                    <MvPoly as Zero>::zero()
                } else {
                    let (q, _) = gen_poly(rng, nvp, deg);
                    MvPoly::from_coefficients_vec(nvp, q.terms().to_vec())
                }
            }
        };
        let hb = if coin(rng) { Some(range(rng, 1, s)) } else { None };
        decl.push(p.num_vars());
        hbs.push(hb);
        polys.push(LabeledPolynomial::new(format!("p{}", j), p, None, hb));
    }
    let desc = format!(
        "pst13 batch nv={} D={} s={} polys={} declared={:?} hiding={:?} points={} false={}",
        nv, d, s, npoly, decl, hbs.iter().map(|h| h.is_some()).collect::<Vec<_>>(), npoints, n_false
    );
    let ptxt = format!(
        "{}# polynomials: {}\n# declared num_vars: {:?}\n# hiding bounds: {:?}\n",
        head,
        polys_val(&polys.iter().map(|p| p.polynomial().clone()).collect::<Vec<_>>()),
        decl,
        hbs
    );
    let (comms, states): (Vec<LabeledCommitment<Comm>>, Vec<Rand>) =
        match guarded(|| PC::commit(&ck, polys.iter(), Some(&mut *rng))) {
            Ok(Ok(x)) => x,
            other => {
                ctx.rep.expect_fail(id, &fail_sig("commit-refused"), &format!("commit refused an in-domain polynomial: {:?}", other.err().or(Some("Err".into()))), ptxt);
                ctx.rep.case(&desc, None);
                return;
            }
        };
    let plain: Vec<MvPoly> = polys.iter().map(|p| p.polynomial().clone()).collect();
    let blinds: Vec<MvPoly> = states.iter().map(|s| s.blinding_polynomial.clone()).collect();
    let c_scalars: Vec<Fr> = (0..npoly)
        .map(|j| trap.g * plain[j].evaluate(&trap.betas) + trap.gamma * blinds[j].evaluate(&trap.betas))
        .collect();
    if (0..npoly).any(|j| g1(c_scalars[j]) != comms[j].commitment().comm.0) {
        ctx.rep.expect_fail(id, "pst13/commitment-not-key-defined", "commitment != g·p(beta) + gamma·r(beta)", ptxt);
        ctx.rep.case(&desc, None);
        return;
    }
    // the query set: point label k -> (point, sorted subset of polynomials)
    let mut groups: Vec<(String, Vec<Fr>, Vec<usize>)> = vec![];
    for k in 0..npoints {
        let z: Vec<Fr> = (0..nv).map(|_| Fr::rand(rng)).collect();
        let mut subset: Vec<usize> = (0..npoly).filter(|_| coin(rng)).collect();
        if subset.is_empty() {
            subset.push(range(rng, 0, npoly - 1));
        }
        groups.push((format!("z{}", k), z, subset));
    }
    let mut qs: ark_poly_commit::QuerySet<Vec<Fr>> = ark_poly_commit::QuerySet::new();
    let mut evals: ark_poly_commit::Evaluations<Vec<Fr>, Fr> = ark_poly_commit::Evaluations::new();
    let mut positions: Vec<(usize, usize)> = vec![];
    for (k, (pl, z, subset)) in groups.iter().enumerate() {
        for &j in subset {
            qs.insert((format!("p{}", j), (pl.clone(), z.clone())));
            evals.insert((format!("p{}", j), z.clone()), plain[j].evaluate(z));
            positions.push((k, j));
        }
    }
    // false claims
    let mut false_groups: Vec<usize> = vec![];
    let mut left = n_false;
    // (bounded: once every (polynomial, point) key is falsified no further claim can be moved)
    let mut tries = 0;
    while left > 0 && false_groups.len() < positions.len() && tries < 8 * positions.len() + 8 {
        tries += 1;
        let (k, j) = positions[range(rng, 0, positions.len() - 1)];
        let key = (format!("p{}", j), groups[k].1.clone());
        let truth = plain[j].evaluate(&groups[k].1);
        if evals[&key] == truth {
            evals.insert(key, truth + rand_nonzero(rng));
            left -= 1;
        }
        if !false_groups.contains(&k) {
            false_groups.push(k);
        }
    }
    let mut sponge = fresh();
    sponge.absorb_seed(0xC15);
    let vsponge0 = sponge.clone();
    let proofs: Vec<Proof<Bls12_381>> = match guarded(|| PC::batch_open(&ck, polys.iter(), comms.iter(), &qs, &mut sponge, states.iter(), Some(&mut *rng))) {
        Ok(Ok(p)) => p,
        other => {
            ctx.rep.expect_fail(id, &fail_sig("open-refused"), &format!("batch_open refused committed polynomials: {:?}", other.err().or(Some("Err".into()))), ptxt);
            ctx.rep.case(&desc, None);
            return;
        }
    };
    let pxis = sponge.challenges();
    let total: usize = groups.iter().map(|g| g.2.len()).sum();
    if proofs.len() != groups.len() || pxis.len() != total {
        ctx.rep.count("pst13/batch-unexpected-shape");
        ctx.rep.case(&desc, None);
        return;
    }
    // per group: model open, witness scalars, individual check on the running verifier sponge
    let mut off = 0;
    let mut run_sponge = vsponge0.clone();
    let mut all_individual = true;
    let mut css: Vec<Vec<Fr>> = vec![];
    let mut vss: Vec<Vec<Fr>> = vec![];
    let mut wss: Vec<Vec<Fr>> = vec![];
    let mut scalars_ok = true;
    for (k, (_pl, z, subset)) in groups.iter().enumerate() {
        let xis = &pxis[off..off + subset.len()];
        off += subset.len();
        let gp: Vec<MvPoly> = subset.iter().map(|&j| plain[j].clone()).collect();
        let gr: Vec<MvPoly> = subset.iter().map(|&j| blinds[j].clone()).collect();
        let nvp = gp.iter().map(|p| p.num_vars()).max().unwrap_or(0);
        let nvr = gr.iter().map(|p| p.num_vars()).max().unwrap_or(0);
        ctx.ses.ask(
            &format!("{}/open{}", id, k),
            trap.key_args(Req::new("c15.open"), s)
                .arg("nvp", wire::nat(nvp))
                .arg("nvr", wire::nat(nvr))
                .arg("ps", polys_val(&gp))
                .arg("z", wire::fes(z))
                .arg("rs", polys_val(&gr))
                .arg("xis", wire::fes(xis)),
            ImplOutcome::Ok(vec![
                ("w".into(), Expect::G1s(proofs[k].w.clone())),
                ("rv".into(), Expect::OptFe(proofs[k].random_v)),
            ]),
        );
        let mut ws = vec![];
        for v in 0..nv {
            let mut acc = Fr::zero();
            for (t, _) in subset.iter().enumerate() {
                match (quotient_at_padded(&gp[t], z, &trap.betas, v), quotient_at_padded(&gr[t], z, &trap.betas, v)) {
                    (Some(a), Some(b)) => acc += xis[t] * (trap.g * a + trap.gamma * b),
                    _ => scalars_ok = false,
                }
            }
            ws.push(acc);
        }
        if proofs[k].w.len() != nv || ws.iter().zip(proofs[k].w.iter()).any(|(s, w)| g1(*s) != *w) {
            scalars_ok = false;
        }
        let gcomms: Vec<LabeledCommitment<Comm>> = subset.iter().map(|&j| comms[j].clone()).collect();
        let gvals: Vec<Fr> = subset.iter().map(|&j| evals[&(format!("p{}", j), z.clone())]).collect();
        let before = run_sponge.challenges().len();
        let out = guarded(|| PC::check(&vk, gcomms.iter(), z, gvals.clone(), &proofs[k], &mut run_sponge, None));
        let vx: Vec<Fr> = run_sponge.challenges()[before..].to_vec();
        let o = match out {
            Ok(Ok(b)) => ImplOutcome::Ok(vec![("b".into(), Expect::Bool(b))]),
            Ok(Err(e)) => ImplOutcome::Refuse(err_kind(&e)),
            Err(a) => ImplOutcome::Refuse(a),
        };
        let acc_k = accepted(&o);
        all_individual &= acc_k;
        let claim_true = !false_groups.contains(&k);
        if claim_true && !acc_k {
            ctx.rep.expect_fail(id, &fail_sig("honest-rejected"), &format!("check rejected the honest proof of point label {} (declared num_vars {:?}): {:?}", k, decl, o), format!("{}# point {} = {}\n", ptxt, k, wire::fes(z)));
        }
        if !claim_true && acc_k {
            ctx.rep.expect_fail(id, "pst13/false-value-accepted", &format!("check accepted a false value at point label {}", k), format!("{}# point {} = {}\n", ptxt, k, wire::fes(z)));
        }
        if scalars_ok {
            ctx.ses.ask(
                &format!("{}/check{}", id, k),
                trap.key_args(Req::new("c15.check"), s)
                    .arg("cs", wire::fes(&subset.iter().map(|&j| c_scalars[j]).collect::<Vec<_>>()))
                    .arg("z", wire::fes(z))
                    .arg("vs", wire::fes(&gvals))
                    .arg("w", wire::fes(&ws))
                    .arg("rv", wire::opt_fe(&proofs[k].random_v))
                    .arg("xis", wire::fes(&vx)),
                o,
            );
        }
        css.push(subset.iter().map(|&j| c_scalars[j]).collect());
        vss.push(gvals);
        wss.push(ws);
    }
    // batch_check
    let rs = crate::kzg::replay_u128(rng, groups.len());
    let mut bsponge = vsponge0.clone();
    let bout = guarded(|| PC::batch_check(&vk, comms.iter(), &qs, &evals, &proofs, &mut bsponge, &mut *rng));
    let bxis = bsponge.challenges();
    let bo = match bout {
        Ok(Ok(b)) => ImplOutcome::Ok(vec![("b".into(), Expect::Bool(b))]),
        Ok(Err(e)) => ImplOutcome::Refuse(err_kind(&e)),
        Err(a) => ImplOutcome::Refuse(a),
    };
    let bacc = accepted(&bo);
    if false_groups.is_empty() && !bacc {
        ctx.rep.expect_fail(id, &fail_sig("honest-batch-rejected"), &format!("batch_check did not accept an all-true batch (declared num_vars {:?}): {:?}", decl, bo), ptxt.clone());
    }
    if !false_groups.is_empty() && bacc {
        ctx.rep.expect_fail(id, "pst13/batch-false-accepted", &format!("batch_check accepted a batch with false claims at point labels {:?}", false_groups), ptxt.clone());
    }
    if matches!(bo, ImplOutcome::Ok(_)) && bacc != all_individual {
        ctx.rep.expect_fail(id, "pst13/batch-differs-from-individual", &format!("batch_check={} but AND(check_k)={}", bacc, all_individual), ptxt.clone());
    }
    if scalars_ok {
        ctx.ses.ask(
            &format!("{}/batch", id),
            trap.key_args(Req::new("c15.batch_check_q"), s)
                .arg("css", wire::fess(&css))
                .arg("vss", wire::fess(&vss))
                .arg("zs", wire::fess(&groups.iter().map(|g| g.1.clone()).collect::<Vec<_>>()))
                .arg("ws", wire::fess(&wss))
                .arg("rvs", Val::L(proofs.iter().map(|p| wire::opt_fe(&p.random_v)).collect()))
                .arg("xis", wire::fes(&bxis))
                .arg("rs", wire::fes(&rs)),
            bo,
        );
    } else {
        ctx.rep.count("pst13/batch-scalars-unavailable");
    }
    ctx.rep.count(&format!("pst13/batch-points-{}", groups.len()));
    ctx.rep.count(&format!("pst13/batch-false-{}", false_groups.len()));
    if declared == Declared::Fewer {
        ctx.rep.count("pst13/fewer-declared-variables");
    }
    ctx.rep.case(
        &desc,
        Some(format!("pst13-batch/{}/{}/{}/{:?}/{:?}/{}/{}", nv, d, s, decl, hbs.iter().map(|h| h.is_some()).collect::<Vec<_>>(), groups.len(), false_groups.len())),
    );
}

/// `quotient_at` for a polynomial that may be declared over fewer variables than the key: the
/// quotients of the undeclared variables are zero
fn quotient_at_padded(f: &MvPoly, z: &[Fr], betas: &[Fr], i: usize) -> Option<Fr> {
    if i >= f.num_vars() || f.is_zero() {
        return Some(Fr::zero());
    }
    quotient_at(f, z, betas, i)
}

/// Model-backed PST13 cases of the shared properties (wired from main.rs).
pub fn run_prop(ctx: &mut Ctx, prop: &str) {
    let t0 = std::time::Instant::now();
    run_prop_inner(ctx, prop);
    let secs = t0.elapsed().as_secs_f64();
    if secs > 0.05 {
        ctx.rep.notes.push(format!("pst13 cases of {} ({}): {:.1}s", prop, if ctx.thorough { "thorough" } else { "quick" }, secs));
    }
}

fn run_prop_inner(ctx: &mut Ctx, prop: &str) {
    match prop {
        "C01" => {
            for i in 0..ctx.n(6, 30) {
                skipped_variable_case(ctx, "C01", i);
            }
            let n = ctx.n(16, 200);
            for i in 0..n {
                let mut rng = rng_for(ctx.seed, "C01/pst13-batch", i as u64);
                let declared = if i % 4 == 3 { Declared::Fewer } else { Declared::Full };
                batch_case(ctx, &format!("C01/pst13-batch/{}", i), &mut rng, declared, 0, i % 5 == 0);
            }
            ctx.flush_model("C01-pst13");
        }
        "C02" => {
            let n = ctx.n(16, 200);
            for i in 0..n {
                trapdoor_case(ctx, "C02", i);
            }
            ctx.flush_model("C02-pst13");
            let nb = ctx.n(10, 120);
            for i in 0..nb {
                let mut rng = rng_for(ctx.seed, "C02/pst13-batch", i as u64);
                let declared = if i % 4 == 3 { Declared::Fewer } else { Declared::Full };
                batch_case(ctx, &format!("C02/pst13-batch/{}", i), &mut rng, declared, 1, i % 5 == 0);
            }
            ctx.flush_model("C02-pst13-batch");
        }
        "C05" => {
            let n = ctx.n(20, 250);
            for i in 0..n {
                let mut rng = rng_for(ctx.seed, "C05/pst13-batch", i as u64);
                let declared = if i % 5 == 4 { Declared::Fewer } else { Declared::Full };
                let n_false = match i % 3 {
                    0 => 0,
                    1 => 1,
                    _ => range(&mut rng, 1, 3),
                };
                batch_case(ctx, &format!("C05/pst13-batch/{}", i), &mut rng, declared, n_false, false);
            }
            ctx.flush_model("C05-pst13");
        }
        "C03" => {
            let n = ctx.n(12, 80);
            for i in 0..n {
                shape_case(ctx, i);
            }
            ctx.flush_model("C03-pst13");
        }
        "C06" => {
            let n = ctx.n(24, 300);
            for i in 0..n {
                lc_case(ctx, i);
                if i % 8 == 7 {
                    ctx.flush_model(&format!("C06-pst13-{}", i / 8));
                }
            }
            ctx.flush_model("C06-pst13");
        }
        "C08" => {
            let n = ctx.n(24, 300);
            for i in 0..n {
                commit_map_case(ctx, i);
            }
            ctx.flush_model("C08-pst13");
        }
        "C09" => {
            let (mnv, md) = if ctx.thorough { (8, 5) } else { (4, 3) };
            for nv in 1..=mnv {
                for d in 1..=md {
                    if nv > 6 && d > 4 {
                        continue;
                    }
                    real_setup_case(ctx, nv, d, if ctx.thorough { 400 } else { 12 });
                }
                ctx.flush_model(&format!("C09-pst13-{}", nv));
            }
        }
        "C10" => {
            let n = ctx.n(10, 60);
            for i in 0..n {
                relation_case(ctx, i);
            }
            for i in 0..ctx.n(6, 30) {
                skipped_variable_case(ctx, "C10", i);
            }
            ctx.flush_model("C10-pst13");
        }
        "C17" => {
            let n = ctx.n(33, 330);
            for i in 0..n {
                domain_case(ctx, i);
            }
            domain_setup_cases(ctx);
            ctx.flush_model("C17-pst13");
        }
        "C19" => {
            let n = ctx.n(16, 200);
            for i in 0..n {
                size_case(ctx, i);
            }
            ctx.flush_model("C19-pst13");
        }
        "C07" => {
            let n = ctx.n(24, 300);
            for i in 0..n {
                blinding_case(ctx, i);
            }
            ctx.flush_model("C07-pst13");
        }
        _ => {}
    }
}

/// C07: the blinding polynomial of a hiding PST13 commitment is built from exactly
/// `1 + num_vars·(hb+1)` field draws of the caller's RNG (replayed from a clone, in order:
/// constant, then per variable the degrees 1..hb+1); without hiding the RNG is untouched and the
/// proof carries no `random_v`; with hiding `random_v` is the blinding value at the point.
fn blinding_case(ctx: &mut Ctx, i: usize) {
    let id = format!("C07/pst13/{}", i);
    if !ctx.selected(&id) {
        return;
    }
    let mut rng = rng_for(ctx.seed, "C07/pst13", i as u64);
    let nv = range(&mut rng, 1, if ctx.thorough { 4 } else { 3 });
    let d = range(&mut rng, 1, 4);
    let s = range(&mut rng, 1, d);
    let trap = Trap::random(&mut rng, nv, d);
    let pp = trap.params();
    let (ck, vk): (CK, VK) = match guarded(|| PC::trim(&pp, s, 0, None)) {
        Ok(Ok(x)) => x,
        _ => return,
    };
    let (p, kind) = gen_poly(&mut rng, nv, s);
    let hb = if i % 3 == 0 { None } else { Some(range(&mut rng, 1, s)) };
    let head = format!("{}# s={} p={} hb={:?} case={} seed={}\n", trap.desc(), s, poly_val(&p), hb, id, ctx.seed);
    let lp = LabeledPolynomial::new("p".to_string(), p.clone(), None, hb);
    // replay the draws the committer is expected to take
    let mut replay = rng.clone();
    let ndraws = hb.map(|h| 1 + nv * (h + 1)).unwrap_or(0);
    let draws: Vec<Fr> = (0..ndraws).map(|_| Fr::rand(&mut replay)).collect();
    let (comms, states): (Vec<LabeledCommitment<Comm>>, Vec<Rand>) =
        match guarded(|| PC::commit(&ck, [&lp], Some(&mut rng))) {
            Ok(Ok(x)) => x,
            other => {
                ctx.rep.expect_fail(&id, "pst13/commit-refused", &format!("commit refused an in-domain request: {:?}", other.err().or(Some("Err".into()))), head);
                return;
            }
        };
    // the caller's RNG advanced by exactly those draws (none without hiding)
    use ark_std::rand::RngCore;
    if rng.clone().next_u64() != replay.clone().next_u64() {
        ctx.rep.expect_fail(
            &id,
            "pst13/blinding-draw-count",
            &format!("commit with hiding bound {:?} did not consume exactly {} field draws of the caller's RNG", hb, ndraws),
            head.clone(),
        );
    }
    let blind = states[0].blinding_polynomial.clone();
    // expected blinding polynomial: the draws against 1, x_v^j in order
    let mut terms = vec![];
    if hb.is_some() {
        let mut it = draws.iter();
        terms.push((*it.next().unwrap(), SparseTerm::new(vec![])));
        for v in 0..nv {
            for j in 1..=hb.unwrap() + 1 {
                terms.push((*it.next().unwrap(), SparseTerm::new(vec![(v, j)])));
            }
        }
    }
    let want = MvPoly::from_coefficients_vec(nv, terms);
    if want != blind {
        ctx.rep.expect_fail(&id, "pst13/blinding-not-from-draws", "blinding polynomial differs from the replayed draws against 1, x_v^j (j = 1..hb+1)", head.clone());
    }
    if hb.is_none() && !blind.is_zero() {
        ctx.rep.expect_fail(&id, "pst13/blinding-without-hiding", "a non-hiding commitment carries a blinding polynomial", head.clone());
    }
    // commitment = plain + gamma-part
    let plain = trap.g * p.evaluate(&trap.betas);
    let cs = plain + trap.gamma * blind.evaluate(&trap.betas);
    if g1(cs) != comms[0].commitment().comm.0 {
        ctx.rep.expect_fail(&id, "pst13/commitment-not-plain-plus-gamma-part", "commitment != g·p(beta) + gamma·r(beta)", head.clone());
    }
    let mut extra = draws.clone();
    extra.push(Fr::rand(&mut replay));
    ctx.ses.ask(
        &format!("{}/commit", id),
        trap.key_args(Req::new("c15.commit"), s)
            .arg("p", poly_val(&p))
            .arg("hb", wire::opt_nat(hb))
            .arg("rng", wire::boolean(true))
            .arg("draws", wire::fes(&extra)),
        ImplOutcome::Ok(vec![
            ("c".into(), Expect::G1(comms[0].commitment().comm.0)),
            ("blind".into(), Expect::Raw(poly_val(&blind))),
            ("used".into(), Expect::Nat(ndraws)),
        ]),
    );
    // random_v of the opening
    let z: Vec<Fr> = (0..nv).map(|_| Fr::rand(&mut rng)).collect();
    let mut sponge = fresh();
    sponge.absorb_seed(0xC07 + i as u64);
    let vsponge = sponge.clone();
    if let Ok(Ok(proof)) = guarded(|| PC::open(&ck, [&lp], comms.iter(), &z, &mut sponge, states.iter(), None)) {
        let xis = sponge.challenges();
        let want_rv = if blind.is_zero() || xis.is_empty() { None } else { Some(xis[0] * blind.evaluate(&z)) };
        if proof.random_v != want_rv && !(xis.first().map(|x| x.is_zero()).unwrap_or(false)) {
            ctx.rep.expect_fail(&id, "pst13/random-v-not-blinding-value", &format!("random_v = {:?}, expected challenge·r(z) = {:?}", proof.random_v.map(|x| wire::fe(&x).to_string()), want_rv.map(|x| wire::fe(&x).to_string())), head.clone());
        }
        ctx.ses.ask(
            &format!("{}/open", id),
            trap.key_args(Req::new("c15.open"), s)
                .arg("nvp", wire::nat(p.num_vars()))
                .arg("nvr", wire::nat(blind.num_vars()))
                .arg("ps", polys_val(&[p.clone()]))
                .arg("z", wire::fes(&z))
                .arg("rs", polys_val(&[blind.clone()]))
                .arg("xis", wire::fes(&xis)),
            ImplOutcome::Ok(vec![
                ("w".into(), Expect::G1s(proof.w.clone())),
                ("rv".into(), Expect::OptFe(proof.random_v)),
            ]),
        );
        let (o, _) = check_impl(&vk, &comms, &z, &[p.evaluate(&z)], &proof, &vsponge);
        if !accepted(&o) {
            ctx.rep.expect_fail(&id, "pst13/honest-rejected", "honest (hiding) proof rejected", head.clone());
        }
    } else {
        ctx.rep.expect_fail(&id, "pst13/open-refused", "open refused a committed polynomial", head.clone());
    }
    // hiding bound 0 is refused
    if i % 6 == 1 {
        let lp0 = LabeledPolynomial::new("p".to_string(), p.clone(), None, Some(0));
        match guarded(|| PC::commit(&ck, [&lp0], Some(&mut rng))) {
            Ok(Ok(_)) => ctx.rep.expect_fail(&id, "pst13/hiding-bound-zero-accepted", "commit accepted hiding bound 0", head.clone()),
            _ => ctx.rep.count("pst13/hiding-bound-zero-refused"),
        }
    }
    ctx.rep.count(if hb.is_some() { "pst13/c07-hiding" } else { "pst13/c07-non-hiding" });
    ctx.rep.case(
        &format!("pst13 blinding nv={} D={} s={} poly={} hb={:?} draws={}", nv, d, s, kind, hb, ndraws),
        Some(format!("pst13-c07/{}/{}/{:?}/{}", nv, s, hb, kind)),
    );
}

// ------------------------------------------------------------------------------------------------
// shared environment of the per-property PST13 cases below
// ------------------------------------------------------------------------------------------------

struct Env {
    trap: Trap,
    nv: usize,
    d: usize,
    s: usize,
    ck: CK,
    vk: VK,
    polys: Vec<LabeledPolynomial<Fr, MvPoly>>,
    hbs: Vec<Option<usize>>,
    comms: Vec<LabeledCommitment<Comm>>,
    states: Vec<Rand>,
    c_scalars: Vec<Fr>,
    head: String,
}

impl Env {
    fn plain(&self) -> Vec<MvPoly> {
        self.polys.iter().map(|p| p.polynomial().clone()).collect()
    }
    fn blinds(&self) -> Vec<MvPoly> {
        self.states.iter().map(|s| s.blinding_polynomial.clone()).collect()
    }
}

/// trapdoor key, `npoly` committed polynomials of degree <= s (hiding at random when `hiding`);
/// `None` (with an expectation failure recorded) when the library refuses an in-domain request
fn make_env(ctx: &mut Ctx, id: &str, rng: &mut Rng, nv: usize, d: usize, s: usize, npoly: usize, hiding: bool) -> Option<Env> {
    let trap = Trap::random(rng, nv, d);
    let pp = trap.params();
    let head = format!("{}# supported_degree={} case={} seed={}\n", trap.desc(), s, id, ctx.seed);
    let (ck, vk): (CK, VK) = match guarded(|| PC::trim(&pp, s, 0, None)) {
        Ok(Ok(x)) => x,
        other => {
            ctx.rep.expect_fail(id, "pst13/trim-refused", &format!("trim refused in-domain parameters: {:?}", other.err()), head);
            return None;
        }
    };
    let mut polys = vec![];
    let mut hbs = vec![];
    for j in 0..npoly {
        let deg = if coin(rng) { s } else { range(rng, 0, s) };
        let (p, _) = gen_poly(rng, nv, deg);
        let hb = if hiding && coin(rng) { Some(range(rng, 1, s)) } else { None };
        hbs.push(hb);
        polys.push(LabeledPolynomial::new(format!("p{}", j), p, None, hb));
    }
    let head = format!(
        "{}# polynomials: {}\n# hiding bounds: {:?}\n",
        head,
        polys_val(&polys.iter().map(|p| p.polynomial().clone()).collect::<Vec<_>>()),
        hbs
    );
    let (comms, states): (Vec<LabeledCommitment<Comm>>, Vec<Rand>) = match guarded(|| PC::commit(&ck, polys.iter(), Some(&mut *rng))) {
        Ok(Ok(x)) => x,
        other => {
            ctx.rep.expect_fail(id, "pst13/commit-refused", &format!("commit refused an in-domain polynomial: {:?}", other.err().or(Some("Err".into()))), head);
            return None;
        }
    };
    let c_scalars: Vec<Fr> = (0..npoly)
        .map(|j| trap.g * polys[j].polynomial().evaluate(&trap.betas) + trap.gamma * states[j].blinding_polynomial.evaluate(&trap.betas))
        .collect();
    if (0..npoly).any(|j| g1(c_scalars[j]) != comms[j].commitment().comm.0) {
        ctx.rep.expect_fail(id, "pst13/commitment-not-key-defined", "commitment != g·p(beta) + gamma·r(beta)", head);
        return None;
    }
    Some(Env { trap, nv, d, s, ck, vk, polys, hbs, comms, states, c_scalars, head })
}

fn outcome_of(out: Result<Result<bool, ark_poly_commit::Error>, String>) -> ImplOutcome {
    match out {
        Ok(Ok(b)) => ImplOutcome::Ok(vec![("b".into(), Expect::Bool(b))]),
        Ok(Err(e)) => ImplOutcome::Refuse(err_kind(&e)),
        Err(a) => ImplOutcome::Refuse(a),
    }
}

// ------------------------------------------------------------------------------------------------
// C03: the shape of the proof (witness list shorter / longer, elements replaced, random_v toggled)
// ------------------------------------------------------------------------------------------------

/// One honest opening of 1..2 polynomials at a point with `extra` surplus coordinates, then every
/// shape mutation of the proof against the true and against a false claim, through `check` and
/// through `batch_check`; both verifiers are compared with the model, and no false claim may be
/// accepted.
fn shape_case(ctx: &mut Ctx, i: usize) {
    let id = format!("C03/pst13/{}", i);
    if !ctx.selected(&id) {
        return;
    }
    let mut rng = rng_for(ctx.seed, "C03/pst13", i as u64);
    let nv = range(&mut rng, 1, if ctx.thorough { 4 } else { 3 });
    let d = range(&mut rng, 1, 3);
    let s = range(&mut rng, 1, d);
    let npoly = range(&mut rng, 1, 2);
    let env = match make_env(ctx, &id, &mut rng, nv, d, s, npoly, true) {
        Some(e) => e,
        None => return,
    };
    // surplus coordinates of the point (in-domain: the scheme reads the first num_vars of them)
    let extra = match i % 4 {
        0 => 1,
        1 => 2,
        _ => 0,
    };
    let z: Vec<Fr> = (0..nv + extra).map(|_| rand_nonzero(&mut rng)).collect();
    let mut sponge = fresh();
    sponge.absorb_seed(0xC03 + i as u64);
    let vsponge = sponge.clone();
    let proof: Proof<Bls12_381> = match guarded(|| PC::open(&env.ck, env.polys.iter(), env.comms.iter(), &z, &mut sponge, env.states.iter(), None)) {
        Ok(Ok(p)) => p,
        other => {
            ctx.rep.expect_fail(&id, "pst13/open-refused", &format!("open refused a committed polynomial at a point with {} surplus coordinates: {:?}", extra, other.err().or(Some("Err".into()))), format!("{}# point {}\n", env.head, wire::fes(&z)));
            return;
        }
    };
    let xis = sponge.challenges();
    let plain = env.plain();
    let blinds = env.blinds();
    if xis.len() != npoly || proof.w.len() != nv {
        ctx.rep.count("pst13/c03-unexpected-shape");
        return;
    }
    // witness scalars
    let mut ws: Vec<Fr> = vec![];
    for v in 0..nv {
        let mut acc = Fr::zero();
        for j in 0..npoly {
            match (quotient_at(&plain[j], &z, &env.trap.betas, v), quotient_at(&blinds[j], &z, &env.trap.betas, v)) {
                (Some(a), Some(b)) => acc += xis[j] * (env.trap.g * a + env.trap.gamma * b),
                _ => return,
            }
        }
        ws.push(acc);
    }
    if ws.iter().zip(proof.w.iter()).any(|(s, w)| g1(*s) != *w) {
        ctx.rep.count("pst13/witness-differs-from-sequential-quotient");
        return;
    }
    let values: Vec<Fr> = plain.iter().map(|p| p.evaluate(&z)).collect();
    let j0 = range(&mut rng, 0, npoly - 1);
    let delta = rand_nonzero(&mut rng);
    let mut false_values = values.clone();
    false_values[j0] += delta;
    // the mutation catalogue: (name, witness scalars, random_v)
    let rv = proof.random_v;
    let mut muts: Vec<(String, Vec<Fr>, Option<Fr>)> = vec![("honest".into(), ws.clone(), rv)];
    for k in 0..nv {
        muts.push((format!("truncate-{}", k), ws[..k].to_vec(), rv));
    }
    for j in 0..nv {
        let mut w2 = ws.clone();
        w2[j] = Fr::rand(&mut rng);
        muts.push((format!("replace-{}", j), w2, rv));
        // the element that cancels the false value in the pairing relation would need beta_j:
        // w_j + g·xi·delta/(beta_j - z_j) — computable here because the trapdoor is known
        if let Some(inv) = (env.trap.betas[j] - z[j]).inverse() {
            let mut w3 = ws.clone();
            w3[j] -= env.trap.g * xis[j0] * delta * inv;
            muts.push((format!("trapdoor-forge-{}", j), w3, rv));
        }
    }
    {
        let mut w2 = ws.clone();
        w2.push(Fr::rand(&mut rng));
        muts.push(("extend-random".into(), w2, rv));
        let mut w3 = ws.clone();
        w3.push(Fr::zero());
        muts.push(("extend-identity".into(), w3, rv));
        let mut w4 = ws.clone();
        w4.push(Fr::rand(&mut rng));
        w4.push(Fr::rand(&mut rng));
        muts.push(("extend-two".into(), w4, rv));
        if extra > 0 {
            // an extra element computable from the PUBLIC key element g: (xi·delta / z[nv])·g
            let mut w5 = ws.clone();
            w5.push(env.trap.g * xis[j0] * delta * z[nv].inverse().unwrap());
            muts.push(("extend-public-forge".into(), w5, rv));
        }
    }
    match rv {
        Some(x) => {
            muts.push(("rv-changed".into(), ws.clone(), Some(x + rand_nonzero(&mut rng))));
            muts.push(("rv-dropped".into(), ws.clone(), None));
        }
        None => muts.push(("rv-added".into(), ws.clone(), Some(rand_nonzero(&mut rng)))),
    }
    let mut qs: ark_poly_commit::QuerySet<Vec<Fr>> = ark_poly_commit::QuerySet::new();
    for j in 0..npoly {
        qs.insert((format!("p{}", j), ("z".to_string(), z.clone())));
    }
    for (name, w, rvm) in muts.iter() {
        let kind: String = name.split('-').take_while(|t| t.parse::<usize>().is_err()).collect::<Vec<_>>().join("-");
        let pm = Proof::<Bls12_381> { w: g1s(w), random_v: *rvm };
        for (claim, vals) in [("true", &values), ("false", &false_values)] {
            let cid = format!("{}/{}/{}", id, name, claim);
            let txt = format!(
                "{}# point {} ({} surplus coordinates)\n# claimed values {} ({} claim)\n# proof shape: {} -> witness scalars {} random_v {}\n",
                env.head, wire::fes(&z), extra, wire::fes(vals), claim, name, wire::fes(w), wire::opt_fe(rvm)
            );
            // check
            let mut sp = vsponge.clone();
            let out = guarded(|| PC::check(&env.vk, env.comms.iter(), &z, vals.to_vec(), &pm, &mut sp, None));
            // a refusal before the accumulation squeezes nothing: the model still gets the challenges this
            // sponge would give (those of the prover), so that it must refuse for the same reason
            let vx = if sp.challenges().len() < npoly { xis.clone() } else { sp.challenges() };
            let o = outcome_of(out);
            if claim == "false" && accepted(&o) && !name.starts_with("trapdoor-forge") {
                ctx.rep.expect_fail(&cid, &format!("pst13/false-value-accepted/check/{}", kind), &format!("check accepted a false value with a proof of shape `{}`", name), txt.clone());
            }
            if claim == "true" && name == "honest" && !accepted(&o) {
                ctx.rep.expect_fail(&cid, "pst13/honest-rejected", "check rejected the honest proof", txt.clone());
            }
            // a witness list that has not one element per key variable is refused, never answered
            if w.len() != nv && matches!(o, ImplOutcome::Ok(_)) {
                ctx.rep.expect_fail(&cid, &format!("pst13/wrong-witness-count-answered/check/{}", kind), &format!("check answered {:?} for a proof with {} witnesses under a key of {} variables", o, w.len(), nv), txt.clone());
            }
            ctx.ses.ask(
                &format!("{}/check", cid),
                env.trap
                    .key_args(Req::new("c15.check"), env.s)
                    .arg("cs", wire::fes(&env.c_scalars))
                    .arg("z", wire::fes(&z))
                    .arg("vs", wire::fes(vals))
                    .arg("w", wire::fes(w))
                    .arg("rv", wire::opt_fe(rvm))
                    .arg("xis", wire::fes(&vx)),
                o.clone(),
            );
            // batch_check over the one-point query set
            let mut evals: ark_poly_commit::Evaluations<Vec<Fr>, Fr> = ark_poly_commit::Evaluations::new();
            for j in 0..npoly {
                evals.insert((format!("p{}", j), z.clone()), vals[j]);
            }
            let rs = crate::kzg::replay_u128(&rng, 1);
            let mut bsp = vsponge.clone();
            let bout = guarded(|| PC::batch_check(&env.vk, env.comms.iter(), &qs, &evals, &vec![pm.clone()], &mut bsp, &mut rng));
            let bx = if bsp.challenges().len() < npoly { xis.clone() } else { bsp.challenges() };
            let bo = outcome_of(bout);
            if claim == "false" && accepted(&bo) && !name.starts_with("trapdoor-forge") {
                ctx.rep.expect_fail(&cid, &format!("pst13/false-value-accepted/batch_check/{}", kind), &format!("batch_check accepted a false value with a proof of shape `{}` (check on the same input: {:?})", name, o), txt.clone());
            }
            if claim == "true" && name == "honest" && !accepted(&bo) {
                ctx.rep.expect_fail(&cid, "pst13/honest-rejected", "batch_check rejected the honest proof", txt.clone());
            }
            if w.len() != nv && matches!(bo, ImplOutcome::Ok(_)) {
                ctx.rep.expect_fail(&cid, &format!("pst13/wrong-witness-count-answered/batch_check/{}", kind), &format!("batch_check answered {:?} for a proof with {} witnesses under a key of {} variables", bo, w.len(), nv), txt.clone());
            }
            ctx.ses.ask(
                &format!("{}/batch", cid),
                env.trap
                    .key_args(Req::new("c15.batch_check_q"), env.s)
                    .arg("css", wire::fess(&[env.c_scalars.clone()]))
                    .arg("vss", wire::fess(&[vals.to_vec()]))
                    .arg("zs", wire::fess(&[z.clone()]))
                    .arg("ws", wire::fess(&[w.clone()]))
                    .arg("rvs", Val::L(vec![wire::opt_fe(rvm)]))
                    .arg("xis", wire::fes(&bx))
                    .arg("rs", wire::fes(&rs)),
                bo.clone(),
            );
            ctx.rep.count(&format!("pst13/c03-{}-{}-check-{}", kind, claim, if accepted(&o) { "accepts" } else if matches!(o, ImplOutcome::Ok(_)) { "rejects" } else { "aborts" }));
            ctx.rep.count(&format!("pst13/c03-{}-{}-batch-{}", kind, claim, if accepted(&bo) { "accepts" } else if matches!(bo, ImplOutcome::Ok(_)) { "rejects" } else { "aborts" }));
            ctx.rep.case(
                &format!("pst13 shape nv={} s={} polys={} surplus={} shape={} claim={}", nv, env.s, npoly, extra, name, claim),
                Some(format!("pst13-c03/{}/{}/{}/{}/{}", nv, npoly, extra, kind, claim)),
            );
        }
    }
    // the number of proofs in a batch: none, and two for one point label
    for (name, plist) in [("proofs-0", vec![]), ("proofs-2", vec![(ws.clone(), rv), (ws.clone(), rv)])] {
        for (claim, vals) in [("true", &values), ("false", &false_values)] {
            let cid = format!("{}/{}/{}", id, name, claim);
            let mut evals: ark_poly_commit::Evaluations<Vec<Fr>, Fr> = ark_poly_commit::Evaluations::new();
            for j in 0..npoly {
                evals.insert((format!("p{}", j), z.clone()), vals[j]);
            }
            let proofs: Vec<Proof<Bls12_381>> = plist.iter().map(|(w, r)| Proof::<Bls12_381> { w: g1s(w), random_v: *r }).collect();
            let rs = crate::kzg::replay_u128(&rng, 2);
            let mut bsp = vsponge.clone();
            let bout = guarded(|| PC::batch_check(&env.vk, env.comms.iter(), &qs, &evals, &proofs, &mut bsp, &mut rng));
            let bx = if bsp.challenges().len() < npoly { xis.clone() } else { bsp.challenges() };
            let bo = outcome_of(bout);
            if matches!(bo, ImplOutcome::Ok(_)) {
                ctx.rep.expect_fail(
                    &cid,
                    &format!("pst13/false-claim-accepted/shape-{}", name),
                    &format!("batch_check answered {:?} for {} proofs and one point label", bo, proofs.len()),
                    format!("{}# point {}\n# claimed values {}\n# proofs: {}\n", env.head, wire::fes(&z), wire::fes(vals), proofs.len()),
                );
            }
            ctx.ses.ask(
                &format!("{}/batch", cid),
                env.trap
                    .key_args(Req::new("c15.batch_check_q"), env.s)
                    .arg("css", wire::fess(&[env.c_scalars.clone()]))
                    .arg("vss", wire::fess(&[vals.to_vec()]))
                    .arg("zs", wire::fess(&[z.clone()]))
                    .arg("ws", wire::fess(&plist.iter().map(|p| p.0.clone()).collect::<Vec<_>>()))
                    .arg("rvs", Val::L(plist.iter().map(|p| wire::opt_fe(&p.1)).collect()))
                    .arg("xis", wire::fes(&bx))
                    .arg("rs", wire::fes(&rs)),
                bo.clone(),
            );
            ctx.rep.count(&format!("pst13/c03-{}-{}-batch-{}", name, claim, if accepted(&bo) { "accepts" } else if matches!(bo, ImplOutcome::Ok(_)) { "rejects" } else { "aborts" }));
            ctx.rep.case(&format!("pst13 shape nv={} polys={} {} claim={}", nv, npoly, name, claim), Some(format!("pst13-c03/{}/{}/{}/{}", nv, npoly, name, claim)));
        }
    }
    let _ = (env.d, &env.hbs);
}

// ------------------------------------------------------------------------------------------------
// C06: open_combinations / check_combinations (Marlin::open_combinations with PC = MarlinPST13)
// ------------------------------------------------------------------------------------------------

type LinComb = ark_poly_commit::LinearCombination<Fr>;
type QSet = ark_poly_commit::QuerySet<Vec<Fr>>;
type EvalMap = ark_poly_commit::Evaluations<Vec<Fr>, Fr>;

fn opt_nats_val(v: &[Option<usize>]) -> Val {
    Val::L(v.iter().map(|x| wire::opt_nat(*x)).collect())
}
fn labels_val<'a>(v: impl Iterator<Item = &'a String>) -> Val {
    Val::L(v.map(|l| wire::label(l)).collect())
}
fn lpolys_args(r: Req, polys: &[LabeledPolynomial<Fr, MvPoly>]) -> Req {
    r.arg("labels", labels_val(polys.iter().map(|p| p.label())))
        .arg("polys", polys_val(&polys.iter().map(|p| p.polynomial().clone()).collect::<Vec<_>>()))
        .arg("pnvs", wire::nats(&polys.iter().map(|p| p.polynomial().num_vars()).collect::<Vec<_>>()))
        .arg("bounds", opt_nats_val(&polys.iter().map(|p| p.degree_bound()).collect::<Vec<_>>()))
        .arg("hbs", opt_nats_val(&polys.iter().map(|p| p.hiding_bound()).collect::<Vec<_>>()))
}
fn rands_args(r: Req, states: &[Rand]) -> Req {
    r.arg("rands", polys_val(&states.iter().map(|s| s.blinding_polynomial.clone()).collect::<Vec<_>>()))
        .arg("rnvs", wire::nats(&states.iter().map(|s| s.blinding_polynomial.num_vars()).collect::<Vec<_>>()))
}
/// labelled commitments in scalar form (PST13 commitments: no shifted part, no bound)
fn lcomms_args(r: Req, labels: &[String], cs: &[Fr]) -> Req {
    r.arg("clabels", labels_val(labels.iter()))
        .arg("cs", wire::fes(cs))
        .arg("ss", Val::L(cs.iter().map(|_| wire::opt_fe::<Fr>(&None)).collect()))
        .arg("cbounds", opt_nats_val(&vec![None; cs.len()]))
}
fn lcs_args(r: Req, lcs: &[LinComb]) -> Req {
    use ark_poly_commit::LCTerm;
    r.arg("lclabels", labels_val(lcs.iter().map(|l| l.label())))
        .arg("lccoeffs", Val::L(lcs.iter().map(|l| wire::fes(&l.iter().map(|t| t.0).collect::<Vec<_>>())).collect()))
        .arg("lcone", Val::L(lcs.iter().map(|l| Val::L(l.iter().map(|t| wire::nat(t.1.is_one() as usize)).collect())).collect()))
        .arg(
            "lcterms",
            Val::L(
                lcs.iter()
                    .map(|l| {
                        Val::L(
                            l.iter()
                                .map(|t| match &t.1 {
                                    LCTerm::One => wire::label(""),
                                    LCTerm::PolyLabel(s) => wire::label(s),
                                })
                                .collect(),
                        )
                    })
                    .collect(),
            ),
        )
}
fn queries_args(r: Req, qs: &QSet) -> Req {
    r.arg("qlabels", labels_val(qs.iter().map(|q| &q.0)))
        .arg("qplabels", labels_val(qs.iter().map(|q| &(q.1).0)))
        .arg("qpoints", wire::fess(&qs.iter().map(|q| (q.1).1.clone()).collect::<Vec<_>>()))
}
fn evals_args(r: Req, ev: &EvalMap) -> Req {
    r.arg("elabels", labels_val(ev.keys().map(|k| &k.0)))
        .arg("epoints", wire::fess(&ev.keys().map(|k| k.1.clone()).collect::<Vec<_>>()))
        .arg("evals", wire::fes(&ev.values().cloned().collect::<Vec<_>>()))
}

/// the model's name of the implementation's outcome class (`""` = answered)
fn kind_of<T>(r: &Result<Result<T, ark_poly_commit::Error>, String>) -> String {
    match r {
        Ok(Ok(_)) => String::new(),
        // the shared model error type has no constructor for PolynomialDegreeTooLarge
        Ok(Err(e)) => {
            let k = err_kind(e);
            if k == "polynomialDegreeTooLarge" {
                "tooManyCoefficients".into()
            } else {
                k
            }
        }
        Err(_) => "abort".into(),
    }
}

/// the value of a combination at `z`: Σ coeff·p(z) + constants (unknown labels contribute nothing)
fn lc_value(lc: &LinComb, polys: &[LabeledPolynomial<Fr, MvPoly>], z: &Vec<Fr>) -> Fr {
    use ark_poly_commit::LCTerm;
    let mut v = Fr::zero();
    for (co, t) in lc.iter() {
        match t {
            LCTerm::One => v += *co,
            LCTerm::PolyLabel(s) => {
                if let Some(p) = polys.iter().rev().find(|p| p.label() == s) {
                    v += *co * p.polynomial().evaluate(z);
                }
            }
        }
    }
    v
}

fn lc_case(ctx: &mut Ctx, i: usize) {
    use ark_poly_commit::{LCTerm, LinearCombination};
    let id0 = format!("C06/pst13/{}", i);
    if !ctx.selected(&id0) {
        return;
    }
    let mut rng = rng_for(ctx.seed, "C06/pst13", i as u64);
    let nv = range(&mut rng, 1, 3);
    let d = range(&mut rng, 1, 3);
    let s = if coin(&mut rng) { d } else { range(&mut rng, 1, d) };
    let npoly = range(&mut rng, 2, 4);
    let mut env = match make_env(ctx, &id0, &mut rng, nv, d, s, npoly, true) {
        Some(e) => e,
        None => return,
    };
    // the kind of this case
    let kind = match i % 12 {
        3 => "unknown-label",
        5 => "bounded-mixed",
        7 => "bounded-scaled",
        9 => "bounded-alone",
        10 => "unknown-query",
        _ => "in-policy",
    };
    // a polynomial that carries a degree bound (commit and open never read it, the combination code does)
    let bounded: Option<usize> = if kind.starts_with("bounded") { Some(range(&mut rng, 0, npoly - 1)) } else { None };
    if let Some(b) = bounded {
        let old = env.polys[b].clone();
        env.polys[b] = LabeledPolynomial::new(old.label().clone(), old.polynomial().clone(), Some(env.s), old.hiding_bound());
    }
    let rand_coeff = |rng: &mut Rng| match range(rng, 0, 4) {
        0 => Fr::zero(),
        1 => Fr::one(),
        2 => -Fr::one(),
        _ => Fr::rand(rng),
    };
    // every fourth case: at least two combinations and two point labels, met in an order that is not
    // the sorted one (the first combination is queried only under the last point label)
    let crossed = i % 4 == 0;
    let nlc = if crossed { range(&mut rng, 2, 3) } else { range(&mut rng, 1, 3) };
    let mut lcs: Vec<LinComb> = vec![];
    for j in 0..nlc {
        let mut lc = LinearCombination::empty(format!("lc{}", j));
        if j == 0 && kind == "unknown-label" {
            lc.push((Fr::rand(&mut rng), LCTerm::PolyLabel(env.polys[0].label().clone())));
            lc.push((Fr::rand(&mut rng), LCTerm::PolyLabel("nosuch".to_string())));
        } else if j == 0 && kind == "bounded-mixed" {
            let b = bounded.unwrap();
            lc.push((Fr::one(), LCTerm::PolyLabel(env.polys[b].label().clone())));
            if coin(&mut rng) {
                lc.push((Fr::rand(&mut rng), LCTerm::One));
            } else {
                lc.push((Fr::rand(&mut rng), LCTerm::PolyLabel(env.polys[(b + 1) % npoly].label().clone())));
            }
        } else if j == 0 && kind == "bounded-scaled" {
            lc.push((Fr::from(2u64), LCTerm::PolyLabel(env.polys[bounded.unwrap()].label().clone())));
        } else if j == 0 && kind == "bounded-alone" {
            lc.push((Fr::one(), LCTerm::PolyLabel(env.polys[bounded.unwrap()].label().clone())));
        } else {
            let free: Vec<usize> = (0..npoly).filter(|k| Some(*k) != bounded).collect();
            let nt = range(&mut rng, 1, 6);
            let must = range(&mut rng, 0, nt - 1);
            for t in 0..nt {
                let coeff = rand_coeff(&mut rng);
                if t != must && range(&mut rng, 0, 3) == 0 {
                    lc.push((coeff, LCTerm::One));
                } else {
                    lc.push((coeff, LCTerm::PolyLabel(env.polys[free[range(&mut rng, 0, free.len() - 1)]].label().clone())));
                }
            }
        }
        lcs.push(lc);
    }
    // the query set over the combination labels: 1..3 point labels, possibly sharing a point value
    let mut qs: QSet = QSet::new();
    let mut ev: EvalMap = EvalMap::new();
    let nl = if crossed { range(&mut rng, 2, 3) } else { range(&mut rng, 1, 3) };
    let mut pts: Vec<Vec<Fr>> = vec![];
    for l in 0..nl {
        let pt: Vec<Fr> = if l > 0 && coin(&mut rng) { pts[0].clone() } else { (0..nv).map(|_| Fr::rand(&mut rng)).collect() };
        pts.push(pt.clone());
        for (k, lc) in lcs.iter().enumerate() {
            let want = if crossed && k == 0 {
                l == nl - 1
            } else if crossed && k == lcs.len() - 1 && l == 0 {
                true
            } else {
                coin(&mut rng) || (l == nl - 1 && k == lcs.len() - 1)
            };
            if want {
                qs.insert((lc.label().clone(), (format!("pt{}", l), pt.clone())));
                ev.insert((lc.label().clone(), pt.clone()), lc_value(lc, &env.polys, &pt));
            }
        }
    }
    if kind == "unknown-query" {
        qs.insert(("lc9".to_string(), ("pt0".to_string(), pts[0].clone())));
        ev.insert(("lc9".to_string(), pts[0].clone()), Fr::rand(&mut rng));
    }
    let labels: Vec<String> = env.comms.iter().map(|c| c.label().clone()).collect();
    let lc_txt = format!(
        "{}# declared degree bounds: {:?}\n# combinations: {}\n# queries: {}\n# evaluations: {}\n",
        env.head,
        env.polys.iter().map(|p| p.degree_bound()).collect::<Vec<_>>(),
        lcs.iter()
            .map(|l| format!("{} = {}", l.label(), l.iter().map(|t| format!("{}*{:?}", wire::fe(&t.0), t.1)).collect::<Vec<_>>().join(" + ")))
            .collect::<Vec<_>>()
            .join(" ; "),
        qs.iter().map(|q| format!("({}, {}, {})", q.0, (q.1).0, wire::fes(&(q.1).1))).collect::<Vec<_>>().join(" "),
        ev.iter().map(|(k, v)| format!("({}, {}) -> {}", k.0, wire::fes(&k.1), wire::fe(v))).collect::<Vec<_>>().join(" ")
    );
    // ---------------- prover ----------------
    let mut sp = fresh();
    sp.absorb_seed(0xC06 + i as u64);
    let vsponge = sp.clone();
    let r = guarded(|| PC::open_combinations(&env.ck, &lcs, &env.polys, &env.comms, &qs, &mut sp, &env.states, Some(&mut rng.clone())));
    let xis = sp.challenges();
    let pad = |xs: &[Fr], tag: &str| -> Vec<Fr> {
        let mut x = xs.to_vec();
        let mut e = rng_for(3, tag, 5);
        while x.len() < 2 * qs.len() + 4 {
            x.push(Fr::rand(&mut e));
        }
        x
    };
    let preq = |op: &str| -> Req {
        queries_args(lcs_args(lcomms_args(rands_args(lpolys_args(env.trap.key_args(Req::new(op), env.s), &env.polys), &env.states), &labels, &env.c_scalars), &lcs), &qs)
            .arg("xis", wire::fes(&pad(&xis, &id0)))
    };
    let answered = matches!(r, Ok(Ok(_)));
    match &r {
        Ok(Ok(p)) => ctx.ses.ask(
            &format!("{}/open", id0),
            preq("pst13.open_combinations"),
            ImplOutcome::Ok(vec![
                ("ws".into(), Expect::G1s(p.proof.iter().flat_map(|x| x.w.clone()).collect())),
                ("wlens".into(), Expect::Nats(p.proof.iter().map(|x| x.w.len()).collect())),
                ("rvs".into(), Expect::Raw(Val::L(p.proof.iter().map(|x| wire::opt_fe(&x.random_v)).collect()))),
                ("used".into(), Expect::Nat(xis.len())),
            ]),
        ),
        Ok(Err(e)) => ctx.ses.ask(&format!("{}/open", id0), preq("pst13.open_combinations"), ImplOutcome::Refuse(err_kind(e))),
        Err(a) => ctx.ses.ask(&format!("{}/open", id0), preq("pst13.open_combinations"), ImplOutcome::Refuse(a.clone())),
    }
    // the outcome class by name (the property names the errors)
    ctx.ses.ask(
        &format!("{}/open-kind", id0),
        preq("pst13.open_combinations.kind"),
        ImplOutcome::Ok(vec![("kind".into(), Expect::Raw(wire::label(&kind_of(&r))))]),
    );
    let want_kind = match kind {
        "in-policy" | "bounded-alone" => "",
        "unknown-label" | "unknown-query" => "missingPolynomial",
        "bounded-mixed" => "equationHasDegreeBounds",
        _ => "abort",
    };
    if kind_of(&r) != want_kind {
        ctx.rep.expect_fail(
            &id0,
            &format!("pst13/lc-open-outcome/{}", kind),
            &format!("open_combinations on a `{}` case ended with `{}`, expected `{}`", kind, kind_of(&r), want_kind),
            lc_txt.clone(),
        );
    }
    ctx.rep.count(&format!("pst13/lc-{}", kind));
    ctx.rep.case(
        &format!("pst13 lc nv={} s={} polys={} kind={} lcs={} queries={} answered={}", nv, env.s, npoly, kind, lcs.len(), qs.len(), answered),
        Some(format!("pst13-lc/{}/{}/{}/{}", kind, nv, lcs.len(), qs.len())),
    );
    // ---------------- verifier ----------------
    // point label -> (point, sorted combination labels): the order of the proofs and of the challenges
    let mut groups: BTreeMap<String, (Vec<Fr>, BTreeSet<String>)> = BTreeMap::new();
    for (l, (pl, pt)) in qs.iter() {
        groups.entry(pl.clone()).or_insert((pt.clone(), BTreeSet::new())).1.insert(l.clone());
    }
    let proof = match r {
        Ok(Ok(p)) => p,
        _ => {
            // refused by the prover: the verifier must refuse the same statement too (any proof list)
            let dummy = ark_poly_commit::BatchLCProof::<Fr, Vec<Proof<Bls12_381>>> {
                proof: groups.iter().map(|_| Proof::<Bls12_381> { w: g1s(&vec![Fr::one(); nv]), random_v: None }).collect(),
                evals: None,
            };
            let mut vs = vsponge.clone();
            let rs = crate::kzg::replay_u128(&rng, groups.len() + 1);
            let out = guarded(|| PC::check_combinations(&env.vk, &lcs, &env.comms, &qs, &ev, &dummy, &mut vs, &mut rng));
            let vx = pad(&vs.challenges(), &format!("{}/v", id0));
            let vreq = |op: &str| -> Req {
                evals_args(queries_args(lcs_args(lcomms_args(env.trap.key_args(Req::new(op), env.s), &labels, &env.c_scalars), &lcs), &qs), &ev)
                    .arg("ws", wire::fess(&vec![vec![Fr::one(); nv]; groups.len()]))
                    .arg("rvs", Val::L(groups.iter().map(|_| wire::opt_fe::<Fr>(&None)).collect()))
                    .arg("xis", wire::fes(&vx))
                    .arg("rs", wire::fes(&rs))
            };
            ctx.ses.ask(&format!("{}/refused-check", id0), vreq("pst13.check_combinations"), outcome_of(match &out { Ok(Ok(b)) => Ok(Ok(*b)), Ok(Err(e)) => Err(err_kind(e)), Err(a) => Err(a.clone()) }));
            ctx.ses.ask(
                &format!("{}/refused-check-kind", id0),
                vreq("pst13.check_combinations.kind"),
                ImplOutcome::Ok(vec![("kind".into(), Expect::Raw(wire::label(&kind_of(&out))))]),
            );
            // the verifier only sees commitments (made by `commit`, without bounds): a bound declared on a
            // polynomial is invisible to it, so those statements are checked against the dummy proof
            if matches!(out, Ok(Ok(true))) {
                ctx.rep.expect_fail(&id0, &format!("pst13/lc-dummy-proof-accepted/{}", kind), "check_combinations accepted a dummy proof", lc_txt.clone());
            }
            if kind.starts_with("unknown") && kind_of(&out) != "missingPolynomial" {
                ctx.rep.expect_fail(&id0, &format!("pst13/lc-check-outcome/{}", kind), &format!("check_combinations with an unknown label ended with `{}`, expected `missingPolynomial`", kind_of(&out)), lc_txt.clone());
            }
            return;
        }
    };
    // witness scalars of each group's proof (linear in the polynomials)
    let total: usize = groups.values().map(|g| g.1.len()).sum();
    if proof.proof.len() != groups.len() || xis.len() != total {
        ctx.rep.count("pst13/lc-unexpected-shape");
        return;
    }
    let plain = env.plain();
    let blinds = env.blinds();
    let mut wss: Vec<Vec<Fr>> = vec![];
    let mut off = 0;
    let mut scalars_ok = true;
    for (k, (_pl, (z, lbls))) in groups.iter().enumerate() {
        let mut ws = vec![Fr::zero(); nv];
        for (t, lbl) in lbls.iter().enumerate() {
            let lc = lcs.iter().rev().find(|l| l.label() == lbl).unwrap();
            for (co, term) in lc.iter() {
                if let LCTerm::PolyLabel(pl) = term {
                    let j = env.polys.iter().rposition(|p| p.label() == pl).unwrap();
                    for v in 0..nv {
                        match (quotient_at_padded(&plain[j], z, &env.trap.betas, v), quotient_at_padded(&blinds[j], z, &env.trap.betas, v)) {
                            (Some(a), Some(b)) => ws[v] += xis[off + t] * *co * (env.trap.g * a + env.trap.gamma * b),
                            _ => scalars_ok = false,
                        }
                    }
                }
            }
        }
        off += lbls.len();
        if proof.proof[k].w.len() != nv || g1s(&ws) != proof.proof[k].w {
            scalars_ok = false;
        }
        wss.push(ws);
    }
    if !scalars_ok {
        ctx.rep.expect_fail(&id0, "pst13/lc-witness-not-key-defined", "a combination witness differs from the trapdoor-defined quotient commitment", lc_txt.clone());
        return;
    }
    let rvs: Vec<Option<Fr>> = proof.proof.iter().map(|p| p.random_v).collect();
    // the claim positions: every evaluation, every coefficient, every constant
    struct Variant {
        name: String,
        lcs: Vec<LinComb>,
        ev: EvalMap,
        claim_false: bool,
        want_kind: Option<&'static str>,
    }
    let mut variants: Vec<Variant> = vec![Variant { name: "honest".into(), lcs: lcs.clone(), ev: ev.clone(), claim_false: false, want_kind: Some("") }];
    for (n, key) in ev.keys().cloned().enumerate() {
        let mut e2 = ev.clone();
        *e2.get_mut(&key).unwrap() += rand_nonzero(&mut rng);
        variants.push(Variant { name: format!("value-{}", n), lcs: lcs.clone(), ev: e2, claim_false: true, want_kind: Some("") });
    }
    for li in 0..lcs.len() {
        let terms: Vec<(Fr, LCTerm)> = lcs[li].iter().cloned().collect();
        for ti in 0..terms.len() {
            let mut t2 = terms.clone();
            t2[ti].0 += rand_nonzero(&mut rng);
            let mut l2 = lcs.clone();
            l2[li] = LinearCombination::new(lcs[li].label().clone(), t2);
            // the changed statement is false iff some queried value of this combination moves
            let moved = ev.keys().any(|k| &k.0 == lcs[li].label() && lc_value(&l2[li], &env.polys, &k.1) != ev[k]);
            let what = if terms[ti].1.is_one() { "constant" } else { "coeff" };
            variants.push(Variant { name: format!("{}-{}-{}", what, li, ti), lcs: l2, ev: ev.clone(), claim_false: moved, want_kind: Some("") });
        }
    }
    {
        // an evaluation withheld; a combination naming an unknown polynomial on the verifier's side
        let keys: Vec<_> = ev.keys().cloned().collect();
        let mut e2 = ev.clone();
        e2.remove(&keys[range(&mut rng, 0, keys.len() - 1)]);
        variants.push(Variant { name: "missing-eval".into(), lcs: lcs.clone(), ev: e2, claim_false: false, want_kind: Some("missingEvaluation") });
        let li = range(&mut rng, 0, lcs.len() - 1);
        let mut terms: Vec<(Fr, LCTerm)> = lcs[li].iter().cloned().collect();
        terms.push((Fr::rand(&mut rng), LCTerm::PolyLabel("nosuch".to_string())));
        let mut l2 = lcs.clone();
        l2[li] = LinearCombination::new(lcs[li].label().clone(), terms);
        variants.push(Variant { name: "unknown-label".into(), lcs: l2, ev: ev.clone(), claim_false: false, want_kind: Some("missingPolynomial") });
    }
    for v in variants {
        let id = format!("{}/{}", id0, v.name);
        let vkind: String = v.name.split('-').take_while(|t| t.parse::<usize>().is_err()).collect::<Vec<_>>().join("-");
        let mut vs = vsponge.clone();
        let rs = crate::kzg::replay_u128(&rng, groups.len() + 1);
        let out = guarded(|| PC::check_combinations(&env.vk, &v.lcs, &env.comms, &qs, &v.ev, &proof, &mut vs, &mut rng));
        let acc = matches!(out, Ok(Ok(true)));
        let vx = pad(&vs.challenges(), &id);
        let vreq = |op: &str| -> Req {
            evals_args(queries_args(lcs_args(lcomms_args(env.trap.key_args(Req::new(op), env.s), &labels, &env.c_scalars), &v.lcs), &qs), &v.ev)
                .arg("ws", wire::fess(&wss))
                .arg("rvs", Val::L(rvs.iter().map(|x| wire::opt_fe(x)).collect()))
                .arg("xis", wire::fes(&vx))
                .arg("rs", wire::fes(&rs))
        };
        ctx.ses.ask(&id, vreq("pst13.check_combinations"), outcome_of(match &out { Ok(Ok(b)) => Ok(Ok(*b)), Ok(Err(e)) => Err(err_kind(e)), Err(a) => Err(a.clone()) }));
        let txt = format!(
            "{}# verifier variant `{}`: combinations {} ; evaluations {}\n",
            lc_txt,
            v.name,
            v.lcs.iter().map(|l| format!("{} = {}", l.label(), l.iter().map(|t| format!("{}*{:?}", wire::fe(&t.0), t.1)).collect::<Vec<_>>().join(" + "))).collect::<Vec<_>>().join(" ; "),
            v.ev.iter().map(|(k, x)| format!("({}, {}) -> {}", k.0, wire::fes(&k.1), wire::fe(x))).collect::<Vec<_>>().join(" ")
        );
        if let Some(wk) = v.want_kind {
            if !wk.is_empty() {
                ctx.ses.ask(
                    &format!("{}/kind", id),
                    vreq("pst13.check_combinations.kind"),
                    ImplOutcome::Ok(vec![("kind".into(), Expect::Raw(wire::label(&kind_of(&out))))]),
                );
            }
            if kind_of(&out) != wk {
                ctx.rep.expect_fail(&id, &format!("pst13/lc-check-outcome/{}", vkind), &format!("check_combinations ended with `{}`, expected `{}`", kind_of(&out), wk), txt.clone());
            }
        }
        if v.name == "honest" && !acc {
            ctx.rep.expect_fail(&id, "pst13/lc-honest-rejected", &format!("honest combination proof not accepted: {:?}", out.as_ref().map(|r| r.as_ref().map_err(|e| err_kind(e)))), txt.clone());
        }
        if v.claim_false && acc {
            ctx.rep.expect_fail(&id, &format!("pst13/lc-false-accepted/{}", vkind), "a changed combination statement (false claim) was accepted with the honest proof", txt.clone());
        }
        ctx.rep.count(&format!("pst13/lc-check-{}-{}", vkind, if acc { "accepted" } else { "not-accepted" }));
        if v.name != "honest" && !v.claim_false && v.want_kind == Some("") {
            ctx.rep.count("pst13/lc-perturbation-keeps-claim-true");
        }
        ctx.rep.case(&format!("pst13 lc check {} nv={} groups={} acc={}", v.name, nv, groups.len(), acc), Some(format!("pst13-lc-check/{}/{}", vkind, i)));
    }
}

// ------------------------------------------------------------------------------------------------
// C08: the commitment is the key-defined linear map of the term list
// ------------------------------------------------------------------------------------------------

/// `Σ coeff · powers_of_g[term]` by plain group arithmetic on the PUBLISHED key elements (no
/// trapdoor); `None` when a term is not in the key
fn key_sum(ck: &CK, terms: &[(Fr, SparseTerm)]) -> Option<<Bls12_381 as Pairing>::G1> {
    let mut acc = <Bls12_381 as Pairing>::G1::zero();
    for (c, t) in terms {
        acc += ck.powers_of_g.get(t)?.mul(*c);
    }
    Some(acc)
}

fn commit_plain(ck: &CK, p: &MvPoly) -> Result<Result<G1Affine, ark_poly_commit::Error>, String> {
    let lp = LabeledPolynomial::new("p".to_string(), p.clone(), None, None);
    guarded(|| PC::commit(ck, [&lp], None).map(|(c, _)| c[0].commitment().comm.0))
}

fn commit_map_case(ctx: &mut Ctx, i: usize) {
    let id = format!("C08/pst13/{}", i);
    if !ctx.selected(&id) {
        return;
    }
    let mut rng = rng_for(ctx.seed, "C08/pst13", i as u64);
    let nv = range(&mut rng, 1, if ctx.thorough { 4 } else { 3 });
    let d = range(&mut rng, 1, 4);
    let s = if coin(&mut rng) { d } else { range(&mut rng, 1, d) };
    let trap = Trap::random(&mut rng, nv, d);
    let pp = trap.params();
    let (ck, _vk): (CK, VK) = match guarded(|| PC::trim(&pp, s, 0, None)) {
        Ok(Ok(x)) => x,
        _ => return,
    };
    let dp = if coin(&mut rng) { s } else { range(&mut rng, 0, s) };
    let (p, kp) = gen_poly(&mut rng, nv, dp);
    let dq = if coin(&mut rng) { s } else { range(&mut rng, 0, s) };
    let (q, kq) = gen_poly(&mut rng, nv, dq);
    let pick = |rng: &mut Rng| match range(rng, 0, 4) {
        0 => Fr::zero(),
        1 => Fr::one(),
        2 => -Fr::one(),
        _ => Fr::rand(rng),
    };
    let a = pick(&mut rng);
    let b = pick(&mut rng);
    let mut comb = <MvPoly as Zero>::zero();
    comb += (a, &p);
    comb += (b, &q);
    // the same polynomial as `p` given as a raw term vector: coefficients split in two, a zero term
    // added, the order shuffled (the struct fields are public; `commit` reads `terms()` as they are)
    let mut raw_terms: Vec<(Fr, SparseTerm)> = vec![];
    for (c, t) in p.terms() {
        let c1 = Fr::rand(&mut rng);
        raw_terms.push((c1, t.clone()));
        raw_terms.push((*c - c1, t.clone()));
    }
    let ats = all_terms(nv, s);
    raw_terms.push((Fr::zero(), ats[range(&mut rng, 0, ats.len() - 1)].clone()));
    for k in (1..raw_terms.len()).rev() {
        let j = range(&mut rng, 0, k);
        raw_terms.swap(k, j);
    }
    let raw = MvPoly { num_vars: nv, terms: raw_terms };
    let zero = MvPoly::from_coefficients_vec(nv, vec![]);
    let head = format!(
        "{}# s={} p={} q={} a={} b={} raw(p)={} case={} seed={}\n",
        trap.desc(), s, poly_val(&p), poly_val(&q), wire::fe(&a), wire::fe(&b), poly_val(&raw), id, ctx.seed
    );
    let mut got: Vec<Option<G1Affine>> = vec![];
    for (name, poly) in [("p", &p), ("q", &q), ("a*p+b*q", &comb), ("zero", &zero), ("raw(p)", &raw)] {
        let out = commit_plain(&ck, poly);
        let req = trap
            .key_args(Req::new("c15.commit"), s)
            .arg("p", poly_val(poly))
            .arg("hb", wire::opt_nat(None))
            .arg("rng", wire::boolean(false))
            .arg("draws", wire::fes::<Fr>(&[]));
        match &out {
            Ok(Ok(c)) => {
                ctx.ses.ask(&format!("{}/{}", id, name), req, ImplOutcome::Ok(vec![("c".into(), Expect::G1(*c)), ("used".into(), Expect::Nat(0))]));
                match key_sum(&ck, poly.terms()) {
                    Some(ks) if ks.into_affine() == *c => {}
                    _ => ctx.rep.expect_fail(&id, "pst13/commitment-not-key-sum", &format!("commit({}) differs from the sum of the published key elements weighted by the coefficients", name), head.clone()),
                }
                got.push(Some(*c));
            }
            Ok(Err(e)) => {
                ctx.ses.ask(&format!("{}/{}", id, name), req, ImplOutcome::Refuse(err_kind(e)));
                ctx.rep.expect_fail(&id, "pst13/commit-refused", &format!("commit({}) refused a polynomial within the supported degree: {}", name, err_kind(e)), head.clone());
                got.push(None);
            }
            Err(m) => {
                ctx.ses.ask(&format!("{}/{}", id, name), req, ImplOutcome::Refuse(m.clone()));
                ctx.rep.expect_fail(&id, "pst13/commit-refused", &format!("commit({}) aborted on a polynomial within the supported degree: {}", name, m), head.clone());
                got.push(None);
            }
        }
    }
    if let (Some(cp), Some(cq), Some(cc), Some(cz), Some(cr)) = (got[0], got[1], got[2], got[3], got[4]) {
        if (cp.mul(a) + cq.mul(b)).into_affine() != cc {
            ctx.rep.expect_fail(&id, "pst13/commit-not-additive", "commit(a·p + b·q) != a·commit(p) + b·commit(q)", head.clone());
        }
        if !cz.is_zero() {
            ctx.rep.expect_fail(&id, "pst13/commit-zero-not-identity", "the zero polynomial does not commit to the identity", head.clone());
        }
        if cr != cp {
            ctx.rep.expect_fail(&id, "pst13/commit-depends-on-representation", "a reordered term vector with split coefficients and a zero term commits differently", head.clone());
        }
    }
    ctx.rep.count(&format!("pst13/c08-{}-{}", kp, kq));
    ctx.rep.case(&format!("pst13 commit map nv={} D={} s={} p={} q={}", nv, d, s, kp, kq), Some(format!("pst13-c08/{}/{}/{}/{}", nv, s, kp, kq)));
}

// ------------------------------------------------------------------------------------------------
// C09: the library's own setup / trim, checked through pairings; sub-keys interoperate
// ------------------------------------------------------------------------------------------------

fn real_setup_case(ctx: &mut Ctx, nv: usize, d: usize, pair_budget: usize) {
    let id = format!("C09/pst13-setup/{}-{}", nv, d);
    if !ctx.selected(&id) {
        return;
    }
    let mut rng = rng_for(ctx.seed, "C09/pst13-setup", (nv * 16 + d) as u64);
    let mut replay = rng.clone();
    let replay_txt = format!("# MarlinPST13::setup(max_degree={}, num_vars=Some({}), rng_for(seed={}, \"C09/pst13-setup\", {}))\n", d, nv, ctx.seed, nv * 16 + d);
    let pp: PP = match guarded(|| PC::setup(d, Some(nv), &mut rng)) {
        Ok(Ok(pp)) => pp,
        other => {
            ctx.rep.expect_fail(&id, "pst13/setup-refused", &format!("setup refused an in-domain request: {:?}", other.err()), replay_txt);
            return;
        }
    };
    let mut problems: Vec<String> = vec![];
    let one = SparseTerm::new(vec![]);
    let g = match pp.powers_of_g.get(&one) {
        Some(g) => *g,
        None => {
            ctx.rep.expect_fail(&id, "pst13/setup-key-set", "the constant monomial is missing from powers_of_g", replay_txt);
            return;
        }
    };
    if g.is_zero() || pp.gamma_g.is_zero() || pp.h.is_zero() {
        problems.push("an identity generator".into());
    }
    if g == pp.gamma_g {
        problems.push("g == gamma_g".into());
    }
    let want: BTreeSet<SparseTerm> = all_terms(nv, d).into_iter().collect();
    let have: BTreeSet<SparseTerm> = pp.powers_of_g.keys().cloned().collect();
    if have != want || pp.powers_of_g.len() != choose(nv + d, d) {
        problems.push(format!("powers_of_g is not indexed by exactly the C({}+{},{}) monomials of degree <= {}", nv, d, d, d));
    }
    if pp.beta_h.len() != nv || pp.powers_of_gamma_g.len() != nv || pp.powers_of_gamma_g.iter().any(|r| r.len() != d + 1) {
        problems.push("beta_h / powers_of_gamma_g have the wrong shape".into());
    }
    use ark_poly_commit::PCUniversalParams;
    if pp.max_degree() != d || pp.num_vars != nv {
        problems.push("max_degree()/num_vars misreport".into());
    }
    // every published power is the stated power of ONE trapdoor, through pairings only:
    // e(G[m·x_i], h) == e(G[m], beta_i h) for every monomial m of degree < d (sampled to the budget)
    let lower: Vec<&SparseTerm> = pp.powers_of_g.keys().filter(|t| t.degree() + 1 <= d).collect();
    let total_pairs = lower.len() * nv;
    let step = std::cmp::max(1, total_pairs / std::cmp::max(1, pair_budget));
    let mut k = (nv * 5 + d) % step;
    let mut done = 0;
    while k < total_pairs && problems.is_empty() {
        let m = lower[k / nv];
        let i = k % nv;
        let mut v = m.to_vec();
        v.push((i, 1));
        let mx = SparseTerm::new(v);
        match (pp.powers_of_g.get(&mx), pp.powers_of_g.get(m)) {
            (Some(a), Some(b)) => {
                if Bls12_381::pairing(*a, pp.h) != Bls12_381::pairing(*b, pp.beta_h[i]) {
                    problems.push(format!("e(G[{:?}], h) != e(G[{:?}], beta_{} h)", mx, m, i));
                }
            }
            _ => problems.push(format!("monomial {:?}·x_{} missing", m, i)),
        }
        done += 1;
        k += step;
    }
    // gamma rows: e(row_i[0], h) == e(gamma_g, beta_i h), e(row_i[j+1], h) == e(row_i[j], beta_i h)
    for (i, row) in pp.powers_of_gamma_g.iter().enumerate() {
        let mut prev = pp.gamma_g;
        for (j, el) in row.iter().enumerate() {
            if i < pp.beta_h.len() && Bls12_381::pairing(*el, pp.h) != Bls12_381::pairing(prev, pp.beta_h[i]) {
                problems.push(format!("powers_of_gamma_g[{}][{}] is not beta_{} times its predecessor", i, j, i));
                break;
            }
            prev = *el;
        }
    }
    ctx.rep.count(&format!("pst13/c09-pairings-{}", if done == total_pairs { "all" } else { "sample" }));
    // the model's setup from the replayed draws: the same key set in the same (BTreeMap) order, the same
    // monomial values, gamma rows and beta_h
    let betas: Vec<Fr> = (0..nv).map(|_| Fr::rand(&mut replay)).collect();
    if pp.beta_h.len() == nv && betas.iter().zip(pp.beta_h.iter()).all(|(b, bh)| pp.h.mul(*b).into_affine() == *bh) {
        let vals: Vec<Fr> = pp.powers_of_g.keys().map(|t| t.evaluate(&betas)).collect();
        if pp.powers_of_g.values().zip(vals.iter()).any(|(el, v)| g.mul(*v).into_affine() != *el) {
            problems.push("an element of powers_of_g is not g times its monomial at the trapdoor".into());
        }
        let grows: Vec<Vec<Fr>> = (0..nv)
            .map(|i| {
                let mut cur = Fr::one();
                (0..=d).map(|_| { cur *= betas[i]; cur }).collect()
            })
            .collect();
        ctx.ses.ask(
            &id,
            Req::new("c15.setup_terms").arg("nv", wire::nat(nv)).arg("d", wire::nat(d)).arg("betas", wire::fes(&betas)),
            ImplOutcome::Ok(vec![
                ("count".into(), Expect::Nat(pp.powers_of_g.len())),
                ("keys".into(), Expect::Raw(terms_val(pp.powers_of_g.keys()))),
                ("vals".into(), Expect::Fes(vals)),
                ("grows".into(), Expect::Raw(wire::fess(&grows))),
                ("bh".into(), Expect::Fes(betas.clone())),
            ]),
        );
    } else {
        problems.push("beta_h is not the first num_vars field draws times h".into());
    }
    if !problems.is_empty() {
        ctx.rep.expect_fail(&id, "pst13/setup-key-wrong", &problems.join("; "), format!("{}# {}\n", replay_txt, problems.join("\n# ")));
    }
    ctx.rep.case(&format!("pst13 real setup nv={} D={} terms={}", nv, d, pp.powers_of_g.len()), Some(format!("pst13-c09-setup/{}/{}", nv, d)));
    // trim: faithful sub-keys for every supported degree, refusal above, boundary commit, interoperation
    for s in 0..=d + 1 {
        let tid = format!("{}/trim-{}", id, s);
        let out = guarded(|| PC::trim(&pp, s, 0, None));
        let req = Req::new("c15.trim")
            .arg("nv", wire::nat(nv))
            .arg("d", wire::nat(d))
            .arg("s", wire::nat(s))
            .arg("betas", wire::fes(&betas))
            .arg("g", wire::fe(&Fr::one()))
            .arg("gamma", wire::fe(&Fr::one()))
            .arg("h", wire::fe(&Fr::one()));
        match out {
            Ok(Ok((ck, vk))) => {
                let mut tp: Vec<String> = vec![];
                if s > d {
                    tp.push("trim accepted supported_degree > max_degree".into());
                }
                let want_s: BTreeSet<SparseTerm> = want.iter().filter(|t| t.degree() <= s).cloned().collect();
                if ck.powers_of_g.keys().cloned().collect::<BTreeSet<_>>() != want_s {
                    tp.push(format!("trimmed key set is not the monomials of degree <= {}", s));
                }
                if ck.powers_of_g.iter().any(|(t, el)| pp.powers_of_g.get(t) != Some(el)) {
                    tp.push("a trimmed element differs from the universal one".into());
                }
                if ck.powers_of_gamma_g.len() != nv || ck.powers_of_gamma_g.iter().zip(pp.powers_of_gamma_g.iter()).any(|(a, b)| a.len() != s + 1 || a[..] != b[..=std::cmp::min(s, b.len() - 1)]) {
                    tp.push("trimmed gamma rows are not the first s+1 entries".into());
                }
                use ark_poly_commit::{PCCommitterKey, PCVerifierKey};
                if vk.g != g || vk.gamma_g != pp.gamma_g || vk.h != pp.h || vk.beta_h != pp.beta_h || ck.gamma_g != pp.gamma_g
                    || ck.num_vars != nv || vk.num_vars != nv || ck.supported_degree() != s || vk.supported_degree() != s
                    || ck.max_degree() != d || vk.max_degree() != d
                {
                    tp.push("key fields / degree reports differ from the parameters".into());
                }
                // boundary: degree == supported commits, supported + 1 is refused; the sub-keys interoperate
                let full = {
                    let mut t = vec![0usize; nv];
                    for _ in 0..s { t[range(&mut rng, 0, nv - 1)] += 1; }
                    MvPoly::from_coefficients_vec(nv, vec![(rand_nonzero(&mut rng), SparseTerm::new(t.into_iter().enumerate().collect())), (Fr::rand(&mut rng), SparseTerm::new(vec![]))])
                };
                let over = MvPoly::from_coefficients_vec(nv, vec![(rand_nonzero(&mut rng), SparseTerm::new(vec![(nv - 1, s + 1)]))]);
                let lp = LabeledPolynomial::new("p".to_string(), full.clone(), None, None);
                match guarded(|| PC::commit(&ck, [&lp], None)) {
                    Ok(Ok((c, st))) => {
                        let z: Vec<Fr> = (0..nv).map(|_| Fr::rand(&mut rng)).collect();
                        let mut sp = fresh();
                        let vsp = sp.clone();
                        match guarded(|| PC::open(&ck, [&lp], c.iter(), &z, &mut sp, st.iter(), None)) {
                            Ok(Ok(pr)) => {
                                let (o, _) = check_impl(&vk, &c, &z, &[full.evaluate(&z)], &pr, &vsp);
                                if !accepted(&o) {
                                    tp.push("keys of one trim do not interoperate: honest proof rejected".into());
                                }
                                let (o2, _) = check_impl(&vk, &c, &z, &[full.evaluate(&z) + Fr::one()], &pr, &vsp);
                                if accepted(&o2) {
                                    tp.push("false value accepted under the library-made keys".into());
                                }
                            }
                            _ => tp.push("open refused a polynomial of degree == supported".into()),
                        }
                    }
                    _ => tp.push("commit refused a polynomial of degree == supported".into()),
                }
                let lo = LabeledPolynomial::new("p".to_string(), over, None, None);
                if let Ok(Ok(_)) = guarded(|| PC::commit(&ck, [&lo], None)) {
                    tp.push("commit accepted a polynomial of degree supported + 1".into());
                }
                if !tp.is_empty() {
                    ctx.rep.expect_fail(&tid, "pst13/trim-wrong", &tp.join("; "), format!("{}# trim(pp, {}, 0, None)\n# {}\n", replay_txt, s, tp.join("\n# ")));
                }
                let tvals: Vec<Fr> = ck.powers_of_g.keys().map(|t| t.evaluate(&betas)).collect();
                let trows: Vec<Vec<Fr>> = (0..nv)
                    .map(|i| {
                        let mut cur = Fr::one();
                        (0..=s).map(|_| { cur *= betas[i]; cur }).collect()
                    })
                    .collect();
                ctx.ses.ask(
                    &tid,
                    req,
                    ImplOutcome::Ok(vec![
                        ("keys".into(), Expect::Raw(terms_val(ck.powers_of_g.keys()))),
                        ("vals".into(), Expect::Fes(tvals)),
                        ("grows".into(), Expect::Raw(wire::fess(&trows))),
                        ("bh".into(), Expect::Fes(betas.clone())),
                    ]),
                );
            }
            Ok(Err(e)) => {
                if s <= d {
                    ctx.rep.expect_fail(&tid, "pst13/trim-refused", &format!("trim refused supported_degree {} <= {}: {}", s, d, e), replay_txt.clone());
                }
                ctx.ses.ask(&tid, req, ImplOutcome::Refuse(err_kind(&e)));
            }
            Err(a) => {
                ctx.rep.expect_fail(&tid, "pst13/trim-aborted", &format!("trim aborted: {}", a), replay_txt.clone());
                ctx.ses.ask(&tid, req, ImplOutcome::Refuse(a));
            }
        }
        ctx.rep.count(if s <= d { "pst13/c09-trim-in-domain" } else { "pst13/c09-trim-too-large" });
        ctx.rep.case(&format!("pst13 real trim nv={} D={} s={}", nv, d, s), Some(format!("pst13-c09-trim/{}/{}/{}", nv, d, s)));
    }
}

// ------------------------------------------------------------------------------------------------
// C10: `check` (and the one-point `batch_check`) decide exactly the published pairing relation
// ------------------------------------------------------------------------------------------------

/// the published relation in scalar form, written from the paper's equation:
/// `(Σ ξⱼ(Cⱼ − vⱼ·g) − rv·γ)·h == Σᵢ wᵢ·(βᵢh − zᵢ·h)`; `None`: the transcript has not the shape the
/// relation is stated for (more witnesses than key elements / coordinates)
fn reference_relation(g: Fr, gamma: Fr, h: Fr, bh: &[Fr], cs: &[Fr], z: &[Fr], vs: &[Fr], w: &[Fr], rv: &Option<Fr>, xis: &[Fr]) -> Option<bool> {
    if w.len() > bh.len() || w.len() > z.len() {
        return None;
    }
    let n = std::cmp::min(cs.len(), vs.len());
    if xis.len() < n {
        return None;
    }
    let mut inner = Fr::zero();
    for j in 0..n {
        inner += xis[j] * (cs[j] - vs[j] * g);
    }
    inner -= rv.unwrap_or(Fr::zero()) * gamma;
    let mut rhs = Fr::zero();
    for i in 0..w.len() {
        rhs += w[i] * (bh[i] - z[i] * h);
    }
    Some(inner * h == rhs)
}

/// Non-hiding polynomials that do not mention an EARLIER variable but use a later one: the honest proof then
/// carries the identity as witness of the skipped variable, in front of non-identity witnesses. `check` and
/// `batch_check` must accept it, `check` must keep pairing witness j with variable j (a false value is rejected).
fn skipped_variable_case(ctx: &mut Ctx, prop: &str, i: usize) {
    let id = format!("{}/pst13-skipvar/{}", prop, i);
    if !ctx.selected(&id) {
        return;
    }
    let mut rng = rng_for(ctx.seed, "pst13-skipvar", i as u64);
    let nv = 2 + i % 2;
    let d = 2 + (i / 2) % 2;
    let trap = Trap::random(&mut rng, nv, d);
    let pp = trap.params();
    let head = format!("{}# case={} seed={}\n# rerun: .build/cargo/debug/pcv-harness {} --seed {} --only {}\n", trap.desc(), id, ctx.seed, prop, ctx.seed, id);
    let (ck, vk): (CK, VK) = match guarded(|| PC::trim(&pp, d, 0, None)) {
        Ok(Ok(x)) => x,
        _ => return,
    };
    // skip variable `skip` (0 or 1), use a later one
    let skip = if nv == 3 { i % 2 } else { 0 };
    let mut terms = vec![(Fr::rand(&mut rng), SparseTerm::new(vec![]))];
    for v in (skip + 1)..nv {
        terms.push((rand_nonzero(&mut rng), SparseTerm::new(vec![(v, 1 + (i + v) % d)])));
    }
    if nv == 3 && skip == 0 && d >= 2 {
        terms.push((rand_nonzero(&mut rng), SparseTerm::new(vec![(1, 1), (2, 1)])));
    }
    let p = MvPoly::from_coefficients_vec(nv, terms);
    let lp = LabeledPolynomial::new("p".to_string(), p.clone(), None, None);
    let (comms, states): (Vec<LabeledCommitment<Comm>>, Vec<Rand>) = match guarded(|| PC::commit(&ck, [&lp], None)) {
        Ok(Ok(x)) => x,
        _ => { ctx.rep.expect_fail(&id, "pst13/commit-refused", "commit refused an in-domain polynomial", head); return; }
    };
    let z: Vec<Fr> = (0..nv).map(|_| Fr::rand(&mut rng)).collect();
    let v = p.evaluate(&z);
    let mut sponge = fresh();
    let proof: Proof<Bls12_381> = match guarded(|| PC::open(&ck, [&lp], comms.iter(), &z, &mut sponge, states.iter(), None)) {
        Ok(Ok(x)) => x,
        _ => { ctx.rep.expect_fail(&id, "pst13/open-refused", "open refused a committed polynomial", head); return; }
    };
    let identity_first = proof.w.iter().position(|w| w.is_zero()).map(|k| proof.w[k + 1..].iter().any(|w| !w.is_zero())).unwrap_or(false);
    let good = matches!(guarded(|| PC::check(&vk, comms.iter(), &z, [v], &proof, &mut fresh(), None)), Ok(Ok(true)));
    let bad = matches!(guarded(|| PC::check(&vk, comms.iter(), &z, [v + rand_nonzero(&mut rng)], &proof, &mut fresh(), None)), Ok(Ok(true)));
    let mut qs = ark_poly_commit::QuerySet::new();
    qs.insert(("p".to_string(), ("z".to_string(), z.clone())));
    let mut ev = ark_poly_commit::Evaluations::new();
    ev.insert(("p".to_string(), z.clone()), v);
    let batch = matches!(guarded(|| PC::batch_check(&vk, comms.iter(), &qs, &ev, &vec![proof.clone()], &mut fresh(), &mut rng.clone())), Ok(Ok(true)));
    if !good || bad || !batch {
        ctx.rep.expect_fail(&id, "pst13/skipped-variable-opening",
            &format!("polynomial not mentioning x_{}: check(true value)={} check(false value)={} batch_check(true value)={} (identity witness before a non-identity one: {})", skip, good, bad, batch, identity_first),
            format!("{}# polynomial: {}\n# point: {}\n", head, polys_val(&[p.clone()]), wire::fes(&z)));
    }
    ctx.rep.case(&format!("pst13 skipped variable nv={} d={} skip={} identity-first={}", nv, d, skip, identity_first), Some(format!("pst13-skipvar/{}/{}/{}", nv, d, skip)));
}

fn relation_case(ctx: &mut Ctx, i: usize) {
    let id = format!("C10/pst13/{}", i);
    if !ctx.selected(&id) {
        return;
    }
    let mut rng = rng_for(ctx.seed, "C10/pst13", i as u64);
    let nv = range(&mut rng, 1, 3);
    let d = range(&mut rng, 1, 3);
    let s = range(&mut rng, 1, d);
    let npoly = range(&mut rng, 1, 3);
    let env = match make_env(ctx, &id, &mut rng, nv, d, s, npoly, true) {
        Some(e) => e,
        None => return,
    };
    let z: Vec<Fr> = (0..nv).map(|_| Fr::rand(&mut rng)).collect();
    let mut sponge = fresh();
    sponge.absorb_seed(0xC10 + i as u64);
    let vsponge = sponge.clone();
    let proof: Proof<Bls12_381> = match guarded(|| PC::open(&env.ck, env.polys.iter(), env.comms.iter(), &z, &mut sponge, env.states.iter(), None)) {
        Ok(Ok(p)) => p,
        _ => {
            ctx.rep.expect_fail(&id, "pst13/open-refused", "open refused a committed polynomial", env.head.clone());
            return;
        }
    };
    let xis = sponge.challenges();
    let plain = env.plain();
    let blinds = env.blinds();
    if xis.len() != npoly || proof.w.len() != nv {
        return;
    }
    let mut ws: Vec<Fr> = vec![];
    for v in 0..nv {
        let mut acc = Fr::zero();
        for j in 0..npoly {
            match (quotient_at(&plain[j], &z, &env.trap.betas, v), quotient_at(&blinds[j], &z, &env.trap.betas, v)) {
                (Some(a), Some(b)) => acc += xis[j] * (env.trap.g * a + env.trap.gamma * b),
                _ => return,
            }
        }
        ws.push(acc);
    }
    if g1s(&ws) != proof.w {
        ctx.rep.count("pst13/witness-differs-from-sequential-quotient");
        return;
    }
    let values: Vec<Fr> = plain.iter().map(|p| p.evaluate(&z)).collect();
    let t = &env.trap;
    let bh: Vec<Fr> = t.betas.iter().map(|b| t.h * b).collect();
    // one transcript: (key scalars, commitments, point, values, witnesses, random_v, sponge)
    #[derive(Clone)]
    struct Tr {
        g: Fr,
        gamma: Fr,
        h: Fr,
        bh: Vec<Fr>,
        cs: Vec<Fr>,
        z: Vec<Fr>,
        vs: Vec<Fr>,
        w: Vec<Fr>,
        rv: Option<Fr>,
        sponge_tweak: Option<u64>,
    }
    let honest = Tr { g: t.g, gamma: t.gamma, h: t.h, bh: bh.clone(), cs: env.c_scalars.clone(), z: z.clone(), vs: values.clone(), w: ws.clone(), rv: proof.random_v, sponge_tweak: None };
    let mut trs: Vec<(String, Tr)> = vec![("honest".into(), honest.clone())];
    for j in 0..npoly {
        let mut a = honest.clone();
        a.cs[j] = Fr::rand(&mut rng);
        trs.push((format!("commitment-{}", j), a));
        let mut b = honest.clone();
        b.vs[j] = Fr::rand(&mut rng);
        trs.push((format!("value-{}", j), b));
    }
    for v in 0..nv {
        let mut a = honest.clone();
        a.z[v] = Fr::rand(&mut rng);
        trs.push((format!("point-{}", v), a));
        let mut b = honest.clone();
        b.w[v] = Fr::rand(&mut rng);
        trs.push((format!("witness-{}", v), b));
        let mut c = honest.clone();
        c.bh[v] = Fr::rand(&mut rng);
        trs.push((format!("key-beta_h-{}", v), c));
    }
    {
        let mut a = honest.clone();
        a.rv = match a.rv {
            Some(_) => if coin(&mut rng) { Some(Fr::rand(&mut rng)) } else { None },
            None => Some(rand_nonzero(&mut rng)),
        };
        trs.push(("random_v".into(), a));
        let mut b = honest.clone();
        b.g = rand_nonzero(&mut rng);
        trs.push(("key-g".into(), b));
        let mut c = honest.clone();
        c.gamma = rand_nonzero(&mut rng);
        trs.push(("key-gamma_g".into(), c));
        let mut e = honest.clone();
        e.h = rand_nonzero(&mut rng);
        trs.push(("key-h".into(), e));
        let mut f = honest.clone();
        f.sponge_tweak = Some(range(&mut rng, 1, 1000) as u64);
        trs.push(("challenge".into(), f));
    }
    for (name, tr) in trs {
        let cid = format!("{}/{}", id, name);
        let kind: String = name.split('-').take_while(|x| x.parse::<usize>().is_err()).collect::<Vec<_>>().join("-");
        let mut vk2 = env.vk.clone();
        vk2.g = g1(tr.g);
        vk2.gamma_g = g1(tr.gamma);
        vk2.h = g2(tr.h);
        vk2.prepared_h = vk2.h.into();
        vk2.beta_h = g2s(&tr.bh);
        vk2.prepared_beta_h = vk2.beta_h.iter().map(|x| (*x).into()).collect();
        let comms2: Vec<LabeledCommitment<Comm>> = (0..npoly).map(|j| lcomm(env.comms[j].label(), g1(tr.cs[j]))).collect();
        let pr = Proof::<Bls12_381> { w: g1s(&tr.w), random_v: tr.rv };
        let mut sp = vsponge.clone();
        if let Some(x) = tr.sponge_tweak {
            sp.absorb_seed(x);
        }
        let sp0 = sp.clone();
        let out = guarded(|| PC::check(&vk2, comms2.iter(), &tr.z, tr.vs.clone(), &pr, &mut sp, None));
        let vx = sp.challenges();
        let o = outcome_of(out);
        let reference = reference_relation(tr.g, tr.gamma, tr.h, &tr.bh, &tr.cs, &tr.z, &tr.vs, &tr.w, &tr.rv, &vx);
        let txt = format!(
            "{}# component replaced: {}\n# verifier key scalars g={} gamma_g={} h={} beta_h={}\n# commitments {} point {} values {} witnesses {} random_v {} challenges {}\n# reference relation: {:?}\n",
            env.head, name, wire::fe(&tr.g), wire::fe(&tr.gamma), wire::fe(&tr.h), wire::fes(&tr.bh), wire::fes(&tr.cs), wire::fes(&tr.z), wire::fes(&tr.vs), wire::fes(&tr.w), wire::opt_fe(&tr.rv), wire::fes(&vx), reference
        );
        match (&o, reference) {
            (ImplOutcome::Ok(_), Some(r)) if accepted(&o) == r => {}
            _ => ctx.rep.expect_fail(&cid, &format!("pst13/check-differs-from-relation/{}", kind), &format!("check returned {:?}, the published relation evaluates to {:?}", o, reference), txt.clone()),
        }
        if name == "honest" && reference != Some(true) {
            ctx.rep.expect_fail(&cid, "pst13/honest-violates-relation", "the library's honest proof does not satisfy the published relation", txt.clone());
        }
        let vkreq = |op: &str, xs: &[Fr]| -> Req {
            Req::new(op)
                .arg("vg", wire::fe(&tr.g))
                .arg("vgamma", wire::fe(&tr.gamma))
                .arg("vh", wire::fe(&tr.h))
                .arg("vbh", wire::fes(&tr.bh))
                .arg("nv", wire::nat(nv))
                .arg("cs", wire::fes(&tr.cs))
                .arg("z", wire::fes(&tr.z))
                .arg("vs", wire::fes(&tr.vs))
                .arg("w", wire::fes(&tr.w))
                .arg("rv", wire::opt_fe(&tr.rv))
                .arg("xis", wire::fes(xs))
        };
        ctx.ses.ask(&format!("{}/check", cid), vkreq("pst13.check_vk", &vx), o.clone());
        // the same transcript through batch_check (one point label)
        let mut qs: QSet = QSet::new();
        let mut evals: EvalMap = EvalMap::new();
        for j in 0..npoly {
            qs.insert((env.comms[j].label().clone(), ("z".to_string(), tr.z.clone())));
            evals.insert((env.comms[j].label().clone(), tr.z.clone()), tr.vs[j]);
        }
        let rs = crate::kzg::replay_u128(&rng, 1);
        let mut bsp = sp0.clone();
        let bout = guarded(|| PC::batch_check(&vk2, comms2.iter(), &qs, &evals, &vec![pr.clone()], &mut bsp, &mut rng));
        let bx = bsp.challenges();
        let bo = outcome_of(bout);
        let bref = reference_relation(tr.g, tr.gamma, tr.h, &tr.bh, &tr.cs, &tr.z, &tr.vs, &tr.w, &tr.rv, &bx);
        match (&bo, bref) {
            (ImplOutcome::Ok(_), Some(r)) if accepted(&bo) == r => {}
            _ => ctx.rep.expect_fail(&cid, &format!("pst13/batch-check-differs-from-relation/{}", kind), &format!("batch_check returned {:?}, the published relation evaluates to {:?}", bo, bref), txt.clone()),
        }
        ctx.ses.ask(&format!("{}/batch", cid), vkreq("pst13.batch_check_vk", &bx).arg("rs", wire::fes(&rs)), bo.clone());
        ctx.rep.count(&format!("pst13/c10-{}-{}", kind, if reference == Some(true) { "holds" } else { "fails" }));
        ctx.rep.case(&format!("pst13 relation nv={} polys={} component={} relation={:?}", nv, npoly, name, reference), Some(format!("pst13-c10/{}/{}/{}", nv, npoly, kind)));
    }
}

// ------------------------------------------------------------------------------------------------
// C17: out-of-domain requests are refused (by the code and by the model)
// ------------------------------------------------------------------------------------------------

fn domain_case(ctx: &mut Ctx, i: usize) {
    let id = format!("C17/pst13/{}", i);
    if !ctx.selected(&id) {
        return;
    }
    let mut rng = rng_for(ctx.seed, "C17/pst13", i as u64);
    let nv = range(&mut rng, 1, 3);
    let d = range(&mut rng, 2, 4);
    let s = range(&mut rng, 1, d - 1);
    let npoly = range(&mut rng, 1, 2);
    let kinds = ["commit-degree", "commit-extra-variable", "commit-hiding-zero", "commit-hiding-large", "commit-no-rng", "open-degree", "open-short-point", "check-short-point", "batch-unknown-label", "batch-missing-eval", "batch-open-unknown-label"];
    let kind = kinds[i % kinds.len()];
    // the short-point openings are mostly non-hiding, so that the index into the point (and not the
    // length assertion of `evaluate` on the blinding polynomial) is what refuses
    let hiding = kind != "open-short-point" || i % 3 == 0;
    let env = match make_env(ctx, &id, &mut rng, nv, d, s, npoly, hiding) {
        Some(e) => e,
        None => return,
    };
    let t = &env.trap;
    let plain = env.plain();
    let blinds = env.blinds();
    let any_hiding = blinds.iter().any(|b| !b.is_zero());
    let refused = |ctx: &mut Ctx, what: &str, ok: bool, txt: String| {
        if ok {
            ctx.rep.expect_fail(&id, &format!("pst13/out-of-domain-answered/{}", kind), what, txt);
        }
    };
    match kind {
        "commit-degree" | "commit-extra-variable" | "commit-hiding-zero" | "commit-hiding-large" | "commit-no-rng" => {
            let (p, hb, with_rng): (MvPoly, Option<usize>, bool) = match kind {
                "commit-degree" => {
                    // total degree s + 1 through a mixed monomial when there is more than one variable
                    let term = if nv > 1 { vec![(0, s), (nv - 1, 1)] } else { vec![(0, s + 1)] };
                    (MvPoly::from_coefficients_vec(nv, vec![(rand_nonzero(&mut rng), SparseTerm::new(term)), (Fr::rand(&mut rng), SparseTerm::new(vec![]))]), None, true)
                }
                "commit-extra-variable" => (MvPoly::from_coefficients_vec(nv + 1, vec![(rand_nonzero(&mut rng), SparseTerm::new(vec![(nv, 1)])), (Fr::rand(&mut rng), SparseTerm::new(vec![]))]), None, true),
                "commit-hiding-zero" => (gen_poly(&mut rng, nv, s).0, Some(0), true),
                "commit-hiding-large" => (gen_poly(&mut rng, nv, s).0, Some(s + 1 + range(&mut rng, 0, 2)), true),
                _ => (gen_poly(&mut rng, nv, s).0, Some(range(&mut rng, 1, s)), false),
            };
            let lp = LabeledPolynomial::new("p".to_string(), p.clone(), None, hb);
            let out = if with_rng { guarded(|| PC::commit(&env.ck, [&lp], Some(&mut rng))) } else { guarded(|| PC::commit(&env.ck, [&lp], None)) };
            let draws: Vec<Fr> = (0..1 + nv * (hb.unwrap_or(0) + 1)).map(|_| Fr::rand(&mut rng)).collect();
            let req = t
                .key_args(Req::new("c15.commit"), s)
                .arg("p", poly_val(&p))
                .arg("hb", wire::opt_nat(hb))
                .arg("rng", wire::boolean(with_rng))
                .arg("draws", wire::fes(&draws));
            let txt = format!("{}# commit p={} hb={:?} rng={}\n", env.head, poly_val(&p), hb, with_rng);
            match out {
                Ok(Ok(_)) => refused(ctx, "commit answered an out-of-domain request", true, txt),
                Ok(Err(e)) => ctx.ses.ask(&id, req, ImplOutcome::Refuse(err_kind(&e))),
                Err(a) => ctx.ses.ask(&id, req, ImplOutcome::Refuse(a)),
            }
        }
        "open-degree" => {
            // a polynomial above the supported degree handed to `open` (never committed under this key)
            let term = if nv > 1 { vec![(0, s), (nv - 1, 1)] } else { vec![(0, s + 1)] };
            let p = MvPoly::from_coefficients_vec(nv, vec![(rand_nonzero(&mut rng), SparseTerm::new(term))]);
            let lp = LabeledPolynomial::new("p".to_string(), p.clone(), None, None);
            let z: Vec<Fr> = (0..nv).map(|_| Fr::rand(&mut rng)).collect();
            let st = vec![<Rand as ark_poly_commit::PCCommitmentState>::empty()];
            let mut sp = fresh();
            let out = guarded(|| PC::open(&env.ck, [&lp], env.comms.iter().take(1), &z, &mut sp, st.iter(), None));
            let req = t
                .key_args(Req::new("c15.open"), s)
                .arg("nvp", wire::nat(nv))
                .arg("nvr", wire::nat(0))
                .arg("ps", polys_val(&[p.clone()]))
                .arg("z", wire::fes(&z))
                .arg("rs", polys_val(&[<MvPoly as Zero>::zero()]))
                .arg("xis", wire::fes(&[Fr::rand(&mut rng)]));
            let txt = format!("{}# open p={} at {}\n", env.head, poly_val(&p), wire::fes(&z));
            match out {
                Ok(Ok(_)) => refused(ctx, "open answered for a polynomial above the supported degree", true, txt),
                Ok(Err(e)) => ctx.ses.ask(&id, req, ImplOutcome::Refuse(err_kind(&e))),
                Err(a) => ctx.ses.ask(&id, req, ImplOutcome::Refuse(a)),
            }
        }
        "open-short-point" | "check-short-point" => {
            // a point with fewer coordinates than the key has variables
            let zfull: Vec<Fr> = (0..nv).map(|_| Fr::rand(&mut rng)).collect();
            let short: Vec<Fr> = zfull[..nv - 1].to_vec();
            if kind == "open-short-point" {
                let mut sp = fresh();
                sp.absorb_seed(i as u64);
                let out = guarded(|| PC::open(&env.ck, env.polys.iter(), env.comms.iter(), &short, &mut sp, env.states.iter(), None));
                let mut xis = sp.challenges();
                while xis.len() < npoly {
                    xis.push(Fr::rand(&mut rng));
                }
                let req = t
                    .key_args(Req::new("c15.open"), s)
                    .arg("nvp", wire::nat(plain.iter().map(|p| p.num_vars()).max().unwrap_or(0)))
                    .arg("nvr", wire::nat(blinds.iter().map(|p| p.num_vars()).max().unwrap_or(0)))
                    .arg("ps", polys_val(&plain))
                    .arg("z", wire::fes(&short))
                    .arg("rs", polys_val(&blinds))
                    .arg("xis", wire::fes(&xis));
                // the last variable may not occur in any polynomial: then the short point is enough for a
                // non-hiding opening and the answer must be the model's
                let uses_last = plain.iter().any(|p| p.terms().iter().any(|(_, tm)| tm.iter().any(|(v, _)| *v == nv - 1)));
                let txt = format!("{}# open at the short point {}\n", env.head, wire::fes(&short));
                match out {
                    Ok(Ok(pr)) => {
                        if uses_last || any_hiding {
                            refused(ctx, "open answered at a point with too few coordinates", true, txt);
                        } else {
                            ctx.ses.ask(&id, req, ImplOutcome::Ok(vec![("w".into(), Expect::G1s(pr.w.clone())), ("rv".into(), Expect::OptFe(pr.random_v))]));
                            ctx.rep.count("pst13/c17-short-point-sufficient");
                        }
                    }
                    Ok(Err(e)) => ctx.ses.ask(&id, req, ImplOutcome::Refuse(err_kind(&e))),
                    Err(a) => ctx.ses.ask(&id, req, ImplOutcome::Refuse(a)),
                }
            } else {
                let mut sp = fresh();
                sp.absorb_seed(i as u64);
                let vsp = sp.clone();
                if let Ok(Ok(pr)) = guarded(|| PC::open(&env.ck, env.polys.iter(), env.comms.iter(), &zfull, &mut sp, env.states.iter(), None)) {
                    let vals: Vec<Fr> = plain.iter().map(|p| p.evaluate(&zfull)).collect();
                    let (o, vx) = check_impl(&env.vk, &env.comms, &short, &vals, &pr, &vsp);
                    let txt = format!("{}# check at the short point {}\n", env.head, wire::fes(&short));
                    refused(ctx, "check answered at a point with too few coordinates", matches!(o, ImplOutcome::Ok(_)), txt);
                    // witness scalars are not needed: the model refuses on the shape alone
                    ctx.ses.ask(
                        &id,
                        t.key_args(Req::new("c15.check"), s)
                            .arg("cs", wire::fes(&env.c_scalars))
                            .arg("z", wire::fes(&short))
                            .arg("vs", wire::fes(&vals))
                            .arg("w", wire::fes(&vec![Fr::one(); pr.w.len()]))
                            .arg("rv", wire::opt_fe(&pr.random_v))
                            .arg("xis", wire::fes(&vx)),
                        o,
                    );
                }
            }
        }
        _ => {
            // label lookups of batch_open / batch_check
            let z: Vec<Fr> = (0..nv).map(|_| Fr::rand(&mut rng)).collect();
            let mut qs: QSet = QSet::new();
            let mut evals: EvalMap = EvalMap::new();
            for j in 0..npoly {
                qs.insert((format!("p{}", j), ("z".to_string(), z.clone())));
                evals.insert((format!("p{}", j), z.clone()), plain[j].evaluate(&z));
            }
            let mut sp = fresh();
            sp.absorb_seed(i as u64);
            let vsp = sp.clone();
            let labels: Vec<String> = env.comms.iter().map(|c| c.label().clone()).collect();
            if kind == "batch-open-unknown-label" {
                qs.insert(("nosuch".to_string(), ("z".to_string(), z.clone())));
                let out = guarded(|| PC::batch_open(&env.ck, env.polys.iter(), env.comms.iter(), &qs, &mut sp, env.states.iter(), Some(&mut rng)));
                let req = queries_args(lcomms_args(rands_args(lpolys_args(t.key_args(Req::new("pst13.batch_open"), s), &env.polys), &env.states), &labels, &env.c_scalars), &qs)
                    .arg("xis", wire::fes(&(0..npoly + 2).map(|_| Fr::rand(&mut rng)).collect::<Vec<_>>()));
                let txt = format!("{}# batch_open with a query for the unknown label `nosuch`\n", env.head);
                match out {
                    Ok(Ok(_)) => refused(ctx, "batch_open answered a query for an unknown polynomial", true, txt),
                    Ok(Err(e)) => {
                        if err_kind(&e) != "missingPolynomial" {
                            ctx.rep.expect_fail(&id, "pst13/wrong-error-kind", &format!("batch_open: {} instead of MissingPolynomial", err_kind(&e)), txt);
                        }
                        ctx.ses.ask(&id, req, ImplOutcome::Refuse(err_kind(&e)))
                    }
                    Err(a) => ctx.ses.ask(&id, req, ImplOutcome::Refuse(a)),
                }
            } else if let Ok(Ok(proofs)) = guarded(|| PC::batch_open(&env.ck, env.polys.iter(), env.comms.iter(), &qs, &mut sp, env.states.iter(), Some(&mut rng))) {
                if kind == "batch-unknown-label" {
                    qs.insert(("nosuch".to_string(), ("z".to_string(), z.clone())));
                    evals.insert(("nosuch".to_string(), z.clone()), Fr::rand(&mut rng));
                } else {
                    evals.remove(&(format!("p{}", range(&mut rng, 0, npoly - 1)), z.clone()));
                }
                let mut vs = vsp.clone();
                let out = guarded(|| PC::batch_check(&env.vk, env.comms.iter(), &qs, &evals, &proofs, &mut vs, &mut rng));
                let req = evals_args(queries_args(lcomms_args(t.key_args(Req::new("pst13.batch_check"), s), &labels, &env.c_scalars), &qs), &evals)
                    .arg("ws", wire::fess(&proofs.iter().map(|p| vec![Fr::one(); p.w.len()]).collect::<Vec<_>>()))
                    .arg("rvs", Val::L(proofs.iter().map(|p| wire::opt_fe(&p.random_v)).collect()))
                    .arg("xis", wire::fes(&(0..npoly + 2).map(|_| Fr::rand(&mut rng)).collect::<Vec<_>>()))
                    .arg("rs", wire::fes(&[Fr::one()]));
                let txt = format!("{}# batch_check, {}\n", env.head, kind);
                let want = if kind == "batch-unknown-label" { "missingPolynomial" } else { "missingEvaluation" };
                match out {
                    Ok(Ok(_)) => refused(ctx, "batch_check answered a query it cannot resolve", true, txt),
                    Ok(Err(e)) => {
                        if err_kind(&e) != want {
                            ctx.rep.expect_fail(&id, "pst13/wrong-error-kind", &format!("batch_check: {} instead of {}", err_kind(&e), want), txt);
                        }
                        ctx.ses.ask(&id, req, ImplOutcome::Refuse(err_kind(&e)))
                    }
                    Err(a) => ctx.ses.ask(&id, req, ImplOutcome::Refuse(a)),
                }
            }
        }
    }
    ctx.rep.count(&format!("pst13/c17-{}", kind));
    ctx.rep.case(&format!("pst13 out-of-domain {} nv={} D={} s={}", kind, nv, d, s), Some(format!("pst13-c17/{}/{}", kind, nv)));
}

fn domain_setup_cases(ctx: &mut Ctx) {
    // zero variables / zero degree / no variable count at setup; trim above the maximum
    for (k, (nv, d)) in [(Some(0usize), 2usize), (Some(2), 0), (None, 2), (Some(0), 0)].into_iter().enumerate() {
        let id = format!("C17/pst13-setup/{}", k);
        if !ctx.selected(&id) {
            continue;
        }
        let mut rng = rng_for(ctx.seed, "C17/pst13-setup", k as u64);
        let out = guarded(|| PC::setup(d, nv, &mut rng));
        match out {
            Ok(Ok(_)) => ctx.rep.expect_fail(&id, "pst13/out-of-domain-answered/setup", &format!("setup({}, {:?}) returned parameters", d, nv), format!("# MarlinPST13::setup({}, {:?})\n", d, nv)),
            Ok(Err(e)) => {
                if let Some(n) = nv {
                    ctx.ses.ask(&id, Req::new("c15.setup_terms").arg("nv", wire::nat(n)).arg("d", wire::nat(d)).arg("betas", wire::fes::<Fr>(&[])), ImplOutcome::Refuse(err_kind(&e)));
                }
            }
            Err(a) => {
                if let Some(n) = nv {
                    ctx.ses.ask(&id, Req::new("c15.setup_terms").arg("nv", wire::nat(n)).arg("d", wire::nat(d)).arg("betas", wire::fes::<Fr>(&[])), ImplOutcome::Refuse(a));
                }
            }
        }
        ctx.rep.count("pst13/c17-setup");
        ctx.rep.case(&format!("pst13 setup refused nv={:?} D={}", nv, d), Some(format!("pst13-c17-setup/{}", k)));
    }
    for k in 0..3usize {
        let id = format!("C17/pst13-trim/{}", k);
        if !ctx.selected(&id) {
            continue;
        }
        let mut rng = rng_for(ctx.seed, "C17/pst13-trim", k as u64);
        let nv = range(&mut rng, 1, 3);
        let d = range(&mut rng, 1, 3);
        let trap = Trap::random(&mut rng, nv, d);
        let pp = trap.params();
        let s = d + 1 + k;
        let out = guarded(|| PC::trim(&pp, s, 0, None));
        let req = trap.key_args(Req::new("c15.trim"), s);
        match out {
            Ok(Ok(_)) => ctx.rep.expect_fail(&id, "pst13/out-of-domain-answered/trim", &format!("trim to {} > max_degree {} returned keys", s, d), trap.desc()),
            Ok(Err(e)) => ctx.ses.ask(&id, req, ImplOutcome::Refuse(err_kind(&e))),
            Err(a) => ctx.ses.ask(&id, req, ImplOutcome::Refuse(a)),
        }
        ctx.rep.count("pst13/c17-trim");
        ctx.rep.case(&format!("pst13 trim refused nv={} D={} s={}", nv, d, s), Some(format!("pst13-c17-trim/{}", k)));
    }
}

// ------------------------------------------------------------------------------------------------
// C19: one group element per commitment, num_vars witness elements per proof, one proof per point label
// ------------------------------------------------------------------------------------------------

fn size_case(ctx: &mut Ctx, i: usize) {
    use ark_serialize::CanonicalSerialize;
    let id = format!("C19/pst13-model/{}", i);
    if !ctx.selected(&id) {
        return;
    }
    const G1B: usize = 48;
    const FRB: usize = 32;
    let mut rng = rng_for(ctx.seed, "C19/pst13-model", i as u64);
    let nv = range(&mut rng, 1, if ctx.thorough { 6 } else { 4 });
    let d = range(&mut rng, 1, 3);
    let s = d;
    let npoly = range(&mut rng, 1, 4);
    let env = match make_env(ctx, &id, &mut rng, nv, d, s, npoly, true) {
        Some(e) => e,
        None => return,
    };
    let plain = env.plain();
    let npoints = range(&mut rng, 1, 4);
    let mut qs: QSet = QSet::new();
    let mut labels_of: BTreeMap<String, BTreeSet<usize>> = BTreeMap::new();
    for k in 0..npoints {
        let z: Vec<Fr> = (0..nv).map(|_| Fr::rand(&mut rng)).collect();
        let mut any = false;
        for j in 0..npoly {
            if coin(&mut rng) {
                qs.insert((format!("p{}", j), (format!("z{}", k), z.clone())));
                labels_of.entry(format!("z{}", k)).or_default().insert(j);
                any = true;
            }
        }
        if !any {
            let j = range(&mut rng, 0, npoly - 1);
            qs.insert((format!("p{}", j), (format!("z{}", k), z.clone())));
            labels_of.entry(format!("z{}", k)).or_default().insert(j);
        }
    }
    let mut sp = fresh();
    sp.absorb_seed(0xC19 + i as u64);
    let proofs: Vec<Proof<Bls12_381>> = match guarded(|| PC::batch_open(&env.ck, env.polys.iter(), env.comms.iter(), &qs, &mut sp, env.states.iter(), Some(&mut rng))) {
        Ok(Ok(p)) => p,
        _ => {
            ctx.rep.expect_fail(&id, "pst13/open-refused", "batch_open refused committed polynomials", env.head.clone());
            return;
        }
    };
    let xis = sp.challenges();
    let mut bad: Vec<String> = vec![];
    for c in env.comms.iter() {
        let n = c.commitment().compressed_size();
        if n != G1B + 1 {
            bad.push(format!("a commitment serializes to {} bytes, one group element + flag is {}", n, G1B + 1));
        }
    }
    if proofs.len() != npoints {
        bad.push(format!("{} proofs for {} point labels", proofs.len(), npoints));
    }
    for (k, (pl, js)) in labels_of.iter().enumerate() {
        if k >= proofs.len() {
            break;
        }
        let hiding = js.iter().any(|j| !env.states[*j].blinding_polynomial.is_zero());
        let want = 8 + nv * G1B + 1 + if hiding { FRB } else { 0 };
        let got = proofs[k].compressed_size();
        if proofs[k].w.len() != nv || got != want || proofs[k].random_v.is_some() != hiding {
            bad.push(format!("proof of point label {} ({} polynomials, max degree {}): {} witness elements, {} bytes; law: {} elements, {} bytes", pl, js.len(), js.iter().map(|j| plain[*j].degree()).max().unwrap_or(0), proofs[k].w.len(), got, nv, want));
        }
    }
    if !bad.is_empty() {
        ctx.rep.expect_fail(&id, "pst13/size-law", &bad.join("; "), format!("{}# queries: {}\n# {}\n", env.head, qs.iter().map(|q| format!("({}, {})", q.0, (q.1).0)).collect::<Vec<_>>().join(" "), bad.join("\n# ")));
    }
    let labels: Vec<String> = env.comms.iter().map(|c| c.label().clone()).collect();
    ctx.ses.ask(
        &id,
        queries_args(lcomms_args(rands_args(lpolys_args(env.trap.key_args(Req::new("pst13.batch_open"), s), &env.polys), &env.states), &labels, &env.c_scalars), &qs)
            .arg("xis", wire::fes(&xis)),
        ImplOutcome::Ok(vec![
            ("ws".into(), Expect::G1s(proofs.iter().flat_map(|p| p.w.clone()).collect())),
            ("wlens".into(), Expect::Nats(proofs.iter().map(|p| p.w.len()).collect())),
            ("rvs".into(), Expect::Raw(Val::L(proofs.iter().map(|p| wire::opt_fe(&p.random_v)).collect()))),
            ("used".into(), Expect::Nat(xis.len())),
        ]),
    );
    ctx.rep.case(&format!("pst13 sizes nv={} D={} polys={} point-labels={} proofs={}", nv, d, npoly, npoints, proofs.len()), Some(format!("pst13-c19/{}/{}/{}", nv, npoly, npoints)));
}

pub fn run(ctx: &mut Ctx) {
    run_combinations(ctx);
    run_setup(ctx);
    let n = ctx.n(120, 900);
    for i in 0..n {
        trapdoor_case(ctx, "C15", i);
        if i % 40 == 39 {
            ctx.flush_model(&format!("C15-pst13-{}", i / 40));
        }
    }
    ctx.flush_model("C15-pst13-last");
    let nr = ctx.n(16, 120);
    for i in 0..nr {
        refusal_case(ctx, i);
    }
    ctx.flush_model("C15-pst13-refuse");
    // polynomials declared over fewer variables than the key (0..nv-1; the zero polynomial declared
    // over 0 variables), with and without hiding, through check AND batch_check: must accept
    let np = ctx.n(24, 200);
    for i in 0..np {
        let mut rng = rng_for(ctx.seed, "C15/pst13-fewer-vars", i as u64);
        batch_case(ctx, &format!("C15/pst13-fewer-vars/{}", i), &mut rng, Declared::Fewer, 0, i % 2 == 0);
    }
    ctx.flush_model("C15-pst13-fewer-vars");
    // development aid: `PCV_C15_ALSO=C05 pcv-harness C15` also runs the PST13 cases of that property
    if let Ok(p) = std::env::var("PCV_C15_ALSO") {
        run_prop(ctx, &p);
    }
}
