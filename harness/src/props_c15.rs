//! Property C15 — PST13 parameters cover every monomial; any multivariate polynomial opens.
//!
//! (i)   `Combinations` iterator (through `verif_hooks::combinations`) vs the Lean model and vs
//!       the brute-force list of sorted sub-multisets.
//! (ii)  the real `MarlinPST13::setup` on the (num_vars, max_degree) grid: trapdoor recovered by
//!       replaying a clone of the RNG and verified against `beta_h`; key set, element values,
//!       pairing relations, `trim`.
//! (iii) trapdoor mode: `UniversalParams` built from known scalars through its public fields;
//!       commit / open / check on dense and sparse mixed-monomial polynomials, with and without
//!       hiding, compared with the model element by element; mutated claims must be refused.
use crate::common::*;
use crate::wire::{self, Req, Val};
use crate::Ctx;
use ark_bls12_381::{Bls12_381, Fr, G1Affine};
use ark_ec::{pairing::Pairing, CurveGroup};
use ark_ff::{Field, One, UniformRand, Zero};
use ark_poly::{
    multivariate::{SparsePolynomial, SparseTerm, Term},
    DenseMVPolynomial, Polynomial,
};
use ark_poly_commit::marlin_pst13_pc::{
    CommitterKey, MarlinPST13, Proof, Randomness, UniversalParams, VerifierKey,
};
use ark_poly_commit::{
    kzg10, marlin_pc, verif_hooks, LabeledCommitment, LabeledPolynomial, PolynomialCommitment,
};
use std::collections::{BTreeMap, BTreeSet};
use std::ops::Mul;

type MvPoly = SparsePolynomial<Fr, SparseTerm>;
type PC = MarlinPST13<Bls12_381, MvPoly>;
type PP = UniversalParams<Bls12_381, MvPoly>;
type CK = CommitterKey<Bls12_381, MvPoly>;
type VK = VerifierKey<Bls12_381>;
type Rand = Randomness<Bls12_381, MvPoly>;
type Comm = marlin_pc::Commitment<Bls12_381>;

// ------------------------------------------------------------------------------------------------
// wire forms
// ------------------------------------------------------------------------------------------------
fn term_val(t: &SparseTerm) -> Val {
    Val::L(
        t.iter()
            .map(|(v, p)| Val::L(vec![wire::nat(*v), wire::nat(*p)]))
            .collect(),
    )
}
fn terms_val<'a>(ts: impl Iterator<Item = &'a SparseTerm>) -> Val {
    Val::L(ts.map(term_val).collect())
}
fn poly_val(p: &MvPoly) -> Val {
    Val::L(
        p.terms()
            .iter()
            .map(|(c, t)| Val::L(vec![wire::fe(c), term_val(t)]))
            .collect(),
    )
}
fn polys_val(ps: &[MvPoly]) -> Val {
    Val::L(ps.iter().map(poly_val).collect())
}
fn natss_val(xs: &[Vec<usize>]) -> Val {
    Val::L(xs.iter().map(|x| wire::nats(x)).collect())
}

fn choose(n: usize, k: usize) -> usize {
    let mut r: u128 = 1;
    for i in 0..k {
        r = r * (n - i) as u128 / (i + 1) as u128;
    }
    r as usize
}

/// every exponent vector of total degree <= d in nv variables, as `SparseTerm`s (the harness' own
/// enumeration: plain nested counting, independent of the library's multiset iterator)
fn all_terms(nv: usize, d: usize) -> Vec<SparseTerm> {
    fn rec(var: usize, nv: usize, left: usize, cur: &mut Vec<(usize, usize)>, out: &mut Vec<SparseTerm>) {
        if var == nv {
            out.push(SparseTerm::new(cur.clone()));
            return;
        }
        for e in 0..=left {
            if e > 0 {
                cur.push((var, e));
            }
            rec(var + 1, nv, left - e, cur, out);
            if e > 0 {
                cur.pop();
            }
        }
    }
    let mut out = vec![];
    rec(0, nv, d, &mut vec![], &mut out);
    out
}

// ------------------------------------------------------------------------------------------------
// (i) the Combinations iterator
// ------------------------------------------------------------------------------------------------

/// all distinct sorted `k`-sub-multisets of `orig`, in lexicographic order (brute force over the
/// index subsets)
fn brute_submultisets(orig: &[usize], k: usize) -> Vec<Vec<usize>> {
    let mut s = orig.to_vec();
    s.sort();
    let n = s.len();
    let mut set = BTreeSet::new();
    for mask in 0u32..(1u32 << n) {
        if mask.count_ones() as usize == k {
            let v: Vec<usize> = (0..n).filter(|i| mask >> i & 1 == 1).map(|i| s[i]).collect();
            set.insert(v);
        }
    }
    set.into_iter().collect()
}

fn combination_case(ctx: &mut Ctx, id: &str, orig: Vec<usize>, k: usize, brute: bool) {
    let out = guarded(|| verif_hooks::combinations(orig.clone(), k));
    let valid = orig.len() > k && k >= 1;
    let req = Req::new("c15.combinations")
        .arg("orig", wire::nats(&orig))
        .arg("k", wire::nat(k));
    let desc = format!("combinations n={} k={} valid={}", orig.len(), k, valid);
    match &out {
        Ok(v) => {
            ctx.ses.ask(
                id,
                req,
                ImplOutcome::Ok(vec![("outs".into(), Expect::Raw(natss_val(v)))]),
            );
            if brute {
                let spec = brute_submultisets(&orig, k);
                if *v != spec {
                    ctx.rep.expect_fail(
                        id,
                        "pst13/combinations-not-all-submultisets",
                        &format!(
                            "Combinations({:?},{}) produced {} vectors, the sorted sub-multisets are {} (first difference at {:?})",
                            orig,
                            k,
                            v.len(),
                            spec.len(),
                            v.iter().zip(spec.iter()).position(|(a, b)| a != b)
                        ),
                        format!("# Combinations::new({:?}, {}).collect()\n# got  {:?}\n# want {:?}\n", orig, k, v, spec),
                    );
                }
            }
        }
        Err(a) => {
            ctx.ses.ask(id, req, ImplOutcome::Refuse(a.clone()));
            if valid {
                ctx.rep.expect_fail(
                    id,
                    "pst13/combinations-aborted",
                    &format!("Combinations({:?},{}) panicked: {}", orig, k, a),
                    format!("# Combinations::new({:?}, {}).collect() panicked: {}\n", orig, k, a),
                );
            }
        }
    }
    ctx.rep.count(if valid { "combinations/valid" } else { "combinations/refused" });
    ctx.rep.case(
        &desc,
        if valid && k >= 2 {
            let mut s = orig.clone();
            s.sort();
            Some(format!("comb/{:?}/{}", s, k))
        } else {
            None
        },
    );
}

fn run_combinations(ctx: &mut Ctx) {
    // the three unit tests of the crate and a few fixed shapes
    let fixed: Vec<(Vec<usize>, usize)> = vec![
        (vec![2, 2, 2], 2),
        (vec![1, 2, 3], 2),
        (vec![1, 2, 2, 3, 4], 3),
        (vec![4, 3, 2, 2, 1], 3),
        (vec![0, 0, 0, 0], 3),
        (vec![0, 1], 1),
        (vec![5], 1),
        (vec![], 0),
        (vec![1, 2], 0),
        (vec![1, 2], 2),
        (vec![1, 2], 3),
    ];
    for (i, (o, k)) in fixed.into_iter().enumerate() {
        combination_case(ctx, &format!("C15/comb-fixed/{}", i), o, k, true);
    }
    // exhaustive: every sorted list over {0,1,2} of length <= 6 (as multiplicity triples), every k
    let maxlen = if ctx.thorough { 7 } else { 5 };
    let mut idx = 0;
    for a in 0..=maxlen {
        for b in 0..=(maxlen - a) {
            for c in 0..=(maxlen - a - b) {
                let mut o = vec![0usize; a];
                o.extend(vec![1usize; b]);
                o.extend(vec![2usize; c]);
                for k in 1..o.len() {
                    combination_case(ctx, &format!("C15/comb-exh/{}", idx), o.clone(), k, true);
                    idx += 1;
                }
            }
        }
    }
    // the variable sets of `setup`
    for nv in 1..=4usize {
        for d in 1..=4usize {
            let vs: Vec<usize> = (0..nv).flat_map(|v| vec![v; d]).collect();
            for deg in 1..=d {
                if vs.len() != deg {
                    let brute = vs.len() <= 16;
                    combination_case(ctx, &format!("C15/comb-setup/{}-{}-{}", nv, d, deg), vs.clone(), deg, brute);
                }
            }
        }
    }
    // random, unsorted, including out-of-domain lengths
    let n = ctx.n(150, 2500);
    for i in 0..n {
        let mut rng = rng_for(ctx.seed, "C15/comb", i as u64);
        let len = range(&mut rng, 0, if ctx.thorough { 12 } else { 9 });
        let hi = range(&mut rng, 0, 5);
        let orig: Vec<usize> = (0..len).map(|_| range(&mut rng, 0, hi)).collect();
        let k = if range(&mut rng, 0, 9) == 0 {
            range(&mut rng, 0, len + 1)
        } else if len >= 2 {
            range(&mut rng, 1, len - 1)
        } else {
            range(&mut rng, 0, 2)
        };
        combination_case(ctx, &format!("C15/comb/{}", i), orig, k, true);
    }
    ctx.flush_model("C15-comb");
}

// ------------------------------------------------------------------------------------------------
// (ii) the real setup
// ------------------------------------------------------------------------------------------------

fn setup_case(ctx: &mut Ctx, nv: usize, d: usize, pair_budget: usize) {
    let id = format!("C15/setup/{}-{}", nv, d);
    let mut rng = rng_for(ctx.seed, "C15/setup", (nv * 16 + d) as u64);
    let mut replay = rng.clone();
    let replay_txt = format!(
        "# MarlinPST13::setup(max_degree={}, num_vars=Some({}), rng_for(seed={}, \"C15/setup\", {}))\n",
        d,
        nv,
        ctx.seed,
        nv * 16 + d
    );
    let pp: PP = match guarded(|| PC::setup(d, Some(nv), &mut rng)) {
        Ok(Ok(pp)) => pp,
        Ok(Err(e)) => {
            ctx.rep.expect_fail(&id, "pst13/setup-refused", &format!("setup refused an in-domain request: {}", e), replay_txt);
            return;
        }
        Err(a) => {
            ctx.rep.expect_fail(&id, "pst13/setup-aborted", &format!("setup aborted on an in-domain request: {}", a), replay_txt);
            return;
        }
    };
    // trapdoor: the first nv field draws — verified, not assumed
    let betas: Vec<Fr> = (0..nv).map(|_| Fr::rand(&mut replay)).collect();
    let recovered = pp.beta_h.len() == nv
        && betas
            .iter()
            .zip(pp.beta_h.iter())
            .all(|(b, bh)| pp.h.mul(*b).into_affine() == *bh);
    if !recovered {
        ctx.rep.model_disagreements.push(Failure {
            case_id: id.clone(),
            signature: "pst13/trapdoor-not-recovered".into(),
            what: "beta_h[i] != (i-th replayed field draw)·h: the setup no longer draws the trapdoor first, or beta_h is not the trapdoor in G2".into(),
            replay: replay_txt.clone(),
        });
        return;
    }
    let mut problems: Vec<String> = vec![];
    let one = SparseTerm::new(vec![]);
    let g = match pp.powers_of_g.get(&one) {
        Some(g) => *g,
        None => {
            ctx.rep.expect_fail(&id, "pst13/setup-key-set", "the constant monomial is missing from powers_of_g", replay_txt);
            return;
        }
    };
    // key set == all exponent vectors of total degree <= d
    let want: BTreeSet<SparseTerm> = all_terms(nv, d).into_iter().collect();
    let have: BTreeSet<SparseTerm> = pp.powers_of_g.keys().cloned().collect();
    if want.len() != choose(nv + d, d) {
        problems.push("harness enumeration has the wrong size".into());
    }
    if pp.powers_of_g.len() != choose(nv + d, d) {
        problems.push(format!("powers_of_g has {} elements, C({}+{},{}) = {}", pp.powers_of_g.len(), nv, d, d, choose(nv + d, d)));
    }
    if have != want {
        let missing: Vec<_> = want.difference(&have).take(3).collect();
        let extra: Vec<_> = have.difference(&want).take(3).collect();
        problems.push(format!("key set differs from the monomials of degree <= {}: missing {:?} extra {:?}", d, missing, extra));
    }
    if pp.num_vars != nv || pp.max_degree != d {
        problems.push("num_vars / max_degree fields differ from the request".into());
    }
    // every element is the generator scaled by the monomial at the common trapdoor point
    let mut vals = vec![];
    for (t, el) in pp.powers_of_g.iter() {
        let tv: Fr = t.evaluate(&betas);
        vals.push(tv);
        if g.mul(tv).into_affine() != *el {
            problems.push(format!("powers_of_g[{:?}] != t(beta)·g", t));
            break;
        }
    }
    // gamma rows
    let mut grows: Vec<Vec<Fr>> = vec![];
    if pp.powers_of_gamma_g.len() != nv {
        problems.push("powers_of_gamma_g has the wrong number of rows".into());
    }
    for (i, row) in pp.powers_of_gamma_g.iter().enumerate() {
        if row.len() != d + 1 {
            problems.push(format!("powers_of_gamma_g[{}] has {} entries, expected {}", i, row.len(), d + 1));
        }
        let mut cur = Fr::one();
        let mut r = vec![];
        for el in row.iter() {
            cur *= betas.get(i).copied().unwrap_or(Fr::zero());
            r.push(cur);
            if pp.gamma_g.mul(cur).into_affine() != *el {
                problems.push(format!("powers_of_gamma_g[{}][{}] != beta_i^(j+1)·gamma_g", i, r.len() - 1));
                break;
            }
        }
        grows.push(r);
    }
    // pairing relations e(G[m·x_i], h) == e(G[m], beta_i h)
    let lower: Vec<&SparseTerm> = pp.powers_of_g.keys().filter(|t| t.degree() + 1 <= d).collect();
    let total_pairs = lower.len() * nv;
    let mut done = 0;
    let step = std::cmp::max(1, total_pairs / std::cmp::max(1, pair_budget));
    let mut k = (nv * 7 + d) % step;
    while k < total_pairs {
        let m = lower[k / nv];
        let i = k % nv;
        let mut v = m.to_vec();
        v.push((i, 1));
        let mx = SparseTerm::new(v);
        match (pp.powers_of_g.get(&mx), pp.powers_of_g.get(m)) {
            (Some(a), Some(b)) => {
                if Bls12_381::pairing(*a, pp.h) != Bls12_381::pairing(*b, pp.beta_h[i]) {
                    problems.push(format!("e(G[{:?}], h) != e(G[{:?}], beta_{} h)", mx, m, i));
                }
            }
            _ => problems.push(format!("monomial {:?}·x_{} missing", m, i)),
        }
        done += 1;
        k += step;
    }
    ctx.rep.count(&format!("setup/pairings-checked-{}", if done == total_pairs { "all" } else { "sample" }));
    if !problems.is_empty() {
        ctx.rep.expect_fail(
            &id,
            "pst13/setup-key-wrong",
            &problems.join("; "),
            format!("{}# {}\n", replay_txt, problems.join("\n# ")),
        );
    }
    // model: term set in BTreeMap order, monomial values at the trapdoor, gamma rows, beta_h
    ctx.ses.ask(
        &id,
        Req::new("c15.setup_terms")
            .arg("nv", wire::nat(nv))
            .arg("d", wire::nat(d))
            .arg("betas", wire::fes(&betas)),
        ImplOutcome::Ok(vec![
            ("count".into(), Expect::Nat(pp.powers_of_g.len())),
            ("keys".into(), Expect::Raw(terms_val(pp.powers_of_g.keys()))),
            ("vals".into(), Expect::Fes(vals.clone())),
            ("grows".into(), Expect::Raw(wire::fess(&grows))),
            ("bh".into(), Expect::Fes(betas.clone())),
        ]),
    );
    ctx.rep.case(&format!("setup nv={} D={} terms={}", nv, d, pp.powers_of_g.len()), Some(format!("setup/{}/{}", nv, d)));

    // trim: every supported degree 0..=d, and d+1 (refused)
    for s in 0..=d + 1 {
        let tid = format!("{}/trim-{}", id, s);
        let out = guarded(|| PC::trim(&pp, s, 0, None));
        let req = Req::new("c15.trim")
            .arg("nv", wire::nat(nv))
            .arg("d", wire::nat(d))
            .arg("s", wire::nat(s))
            .arg("betas", wire::fes(&betas))
            .arg("g", wire::fe(&Fr::one()))
            .arg("gamma", wire::fe(&Fr::one()))
            .arg("h", wire::fe(&Fr::one()));
        match out {
            Ok(Ok((ck, vk))) => {
                let mut tp: Vec<String> = vec![];
                let want_s: BTreeSet<SparseTerm> = want.iter().filter(|t| t.degree() <= s).cloned().collect();
                let have_s: BTreeSet<SparseTerm> = ck.powers_of_g.keys().cloned().collect();
                if have_s != want_s {
                    tp.push(format!("trimmed key set is not the monomials of degree <= {}", s));
                }
                if ck.powers_of_g.iter().any(|(t, el)| pp.powers_of_g.get(t) != Some(el)) {
                    tp.push("a trimmed element differs from the universal one".into());
                }
                if ck.powers_of_gamma_g.len() != nv
                    || ck
                        .powers_of_gamma_g
                        .iter()
                        .zip(pp.powers_of_gamma_g.iter())
                        .any(|(a, b)| a.len() != s + 1 || a[..] != b[..=s])
                {
                    tp.push("trimmed gamma rows are not the first s+1 entries".into());
                }
                if vk.g != g || vk.gamma_g != pp.gamma_g || vk.h != pp.h || vk.beta_h != pp.beta_h
                    || ck.gamma_g != pp.gamma_g || ck.num_vars != nv || vk.num_vars != nv
                    || ck.supported_degree != s || vk.supported_degree != s
                    || ck.max_degree != d || vk.max_degree != d
                {
                    tp.push("verifier/committer key fields differ from the parameters".into());
                }
                if s > d {
                    tp.push("trim accepted supported_degree > max_degree".into());
                }
                if !tp.is_empty() {
                    ctx.rep.expect_fail(&tid, "pst13/trim-wrong", &tp.join("; "), format!("{}# trim(pp, {}, 0, None)\n# {}\n", replay_txt, s, tp.join("\n# ")));
                }
                let tvals: Vec<Fr> = ck.powers_of_g.keys().map(|t| t.evaluate(&betas)).collect();
                let trows: Vec<Vec<Fr>> = grows.iter().map(|r| r[..std::cmp::min(s + 1, r.len())].to_vec()).collect();
                ctx.ses.ask(
                    &tid,
                    req,
                    ImplOutcome::Ok(vec![
                        ("keys".into(), Expect::Raw(terms_val(ck.powers_of_g.keys()))),
                        ("vals".into(), Expect::Fes(tvals)),
                        ("grows".into(), Expect::Raw(wire::fess(&trows))),
                        ("bh".into(), Expect::Fes(betas.clone())),
                    ]),
                );
            }
            Ok(Err(e)) => {
                if s <= d {
                    ctx.rep.expect_fail(&tid, "pst13/trim-refused", &format!("trim refused supported_degree {} <= {}: {}", s, d, e), replay_txt.clone());
                }
                ctx.ses.ask(&tid, req, ImplOutcome::Refuse(err_kind(&e)));
            }
            Err(a) => {
                ctx.rep.expect_fail(&tid, "pst13/trim-aborted", &format!("trim aborted: {}", a), replay_txt.clone());
                ctx.ses.ask(&tid, req, ImplOutcome::Refuse(a));
            }
        }
        ctx.rep.count(if s <= d { "trim/in-domain" } else { "trim/too-large" });
        ctx.rep.case(&format!("trim nv={} D={} s={}", nv, d, s), Some(format!("trim/{}/{}/{}", nv, d, s)));
    }
}

fn run_setup(ctx: &mut Ctx) {
    for nv in 1..=6usize {
        for d in 1..=6usize {
            let id = format!("C15/setup/{}-{}", nv, d);
            if !ctx.selected(&id) {
                continue;
            }
            // quick: the whole grid as well (it is cheap), with a smaller pairing sample
            let budget = if ctx.thorough { 4000 } else { 16 };
            setup_case(ctx, nv, d, budget);
        }
        ctx.flush_model(&format!("C15-setup-{}", nv));
    }
    // out-of-domain requests are refused, by the model as well
    for (nv, d) in [(0usize, 2usize), (2, 0)] {
        let mut rng = rng_for(ctx.seed, "C15/setup-bad", (nv * 16 + d) as u64);
        let out = guarded(|| PC::setup(d, Some(nv), &mut rng));
        let id = format!("C15/setup-bad/{}-{}", nv, d);
        let req = Req::new("c15.setup_terms")
            .arg("nv", wire::nat(nv))
            .arg("d", wire::nat(d))
            .arg("betas", wire::fes::<Fr>(&[]));
        match out {
            Ok(Ok(_)) => ctx.rep.expect_fail(&id, "pst13/setup-accepted-bad", "setup accepted num_vars = 0 or max_degree = 0", format!("# setup({}, Some({}))\n", d, nv)),
            Ok(Err(e)) => ctx.ses.ask(&id, req, ImplOutcome::Refuse(err_kind(&e))),
            Err(a) => ctx.ses.ask(&id, req, ImplOutcome::Refuse(a)),
        }
        ctx.rep.case(&format!("setup refused nv={} D={}", nv, d), None);
    }
    ctx.flush_model("C15-setup-bad");
}

// ------------------------------------------------------------------------------------------------
// (iii) trapdoor mode
// ------------------------------------------------------------------------------------------------

#[derive(Clone)]
struct Trap {
    nv: usize,
    d: usize,
    betas: Vec<Fr>,
    g: Fr,
    gamma: Fr,
    h: Fr,
}

impl Trap {
    fn random(rng: &mut Rng, nv: usize, d: usize) -> Self {
        Trap {
            nv,
            d,
            betas: (0..nv).map(|_| rand_nonzero(rng)).collect(),
            g: rand_nonzero(rng),
            gamma: rand_nonzero(rng),
            h: rand_nonzero(rng),
        }
    }
    /// the parameters `setup` would publish for this trapdoor, built through the public fields
    fn params(&self) -> PP {
        let terms = all_terms(self.nv, self.d);
        let scalars: Vec<Fr> = terms.iter().map(|t| self.g * t.evaluate::<Fr>(&self.betas)).collect();
        let powers_of_g: BTreeMap<SparseTerm, G1Affine> = terms.into_iter().zip(g1s(&scalars)).collect();
        let powers_of_gamma_g: Vec<Vec<G1Affine>> = (0..self.nv)
            .map(|i| {
                let mut cur = self.gamma;
                let mut row = vec![];
                for _ in 0..=self.d {
                    cur *= self.betas[i];
                    row.push(cur);
                }
                g1s(&row)
            })
            .collect();
        let h = g2(self.h);
        let beta_h: Vec<_> = self.betas.iter().map(|b| g2(self.h * b)).collect();
        UniversalParams {
            powers_of_g,
            gamma_g: g1(self.gamma),
            powers_of_gamma_g,
            h,
            prepared_h: h.into(),
            prepared_beta_h: beta_h.iter().map(|x| (*x).into()).collect(),
            beta_h,
            num_vars: self.nv,
            max_degree: self.d,
        }
    }
    fn key_args(&self, r: Req, s: usize) -> Req {
        r.arg("nv", wire::nat(self.nv))
            .arg("d", wire::nat(self.d))
            .arg("s", wire::nat(s))
            .arg("betas", wire::fes(&self.betas))
            .arg("g", wire::fe(&self.g))
            .arg("gamma", wire::fe(&self.gamma))
            .arg("h", wire::fe(&self.h))
    }
    fn desc(&self) -> String {
        format!(
            "# trapdoor: nv={} D={} betas={} g={} gamma={} h={}\n",
            self.nv,
            self.d,
            wire::fes(&self.betas),
            wire::fe(&self.g),
            wire::fe(&self.gamma),
            wire::fe(&self.h)
        )
    }
}

/// polynomial generator: dense over all monomials, random sparse mixed monomials, the library's
/// own `rand` (sum of univariates), single mixed monomial of full degree, zero, constant
fn gen_poly(rng: &mut Rng, nv: usize, deg: usize) -> (MvPoly, &'static str) {
    match range(rng, 0, 11) {
        0 | 1 | 2 | 3 => {
            let ts = all_terms(nv, deg);
            let terms = ts.into_iter().map(|t| (Fr::rand(rng), t)).collect();
            (MvPoly::from_coefficients_vec(nv, terms), "dense")
        }
        4 | 5 | 6 | 7 => {
            let ts = all_terms(nv, deg);
            let n = range(rng, 1, std::cmp::min(8, ts.len()));
            let mut terms = vec![];
            for _ in 0..n {
                let t = ts[range(rng, 0, ts.len() - 1)].clone();
                terms.push((Fr::rand(rng), t));
            }
            (MvPoly::from_coefficients_vec(nv, terms), "sparse")
        }
        8 => (MvPoly::rand(deg, nv, rng), "univariate-sum"),
        9 => {
            // one monomial of total degree exactly deg spread over the variables
            let mut t = vec![0usize; nv];
            for _ in 0..deg {
                t[range(rng, 0, nv - 1)] += 1;
            }
            let term = SparseTerm::new(t.into_iter().enumerate().collect());
            (MvPoly::from_coefficients_vec(nv, vec![(rand_nonzero(rng), term), (Fr::rand(rng), SparseTerm::new(vec![]))]), "monomial")
        }
        10 => (MvPoly::from_coefficients_vec(nv, vec![]), "zero"),
        _ => (MvPoly::from_coefficients_vec(nv, vec![(Fr::rand(rng), SparseTerm::new(vec![]))]), "constant"),
    }
}

fn coeff_of(p: &MvPoly, t: &SparseTerm) -> Fr {
    p.terms().iter().find(|(_, u)| u == t).map(|(c, _)| *c).unwrap_or(Fr::zero())
}

/// the draws that produce `blind` in `SparsePolynomial::rand(hb + 1, nv, _)` (a dropped term is a
/// zero draw)
fn draws_of(blind: &MvPoly, nv: usize, hb: usize) -> Vec<Fr> {
    let mut v = vec![coeff_of(blind, &SparseTerm::new(vec![]))];
    for var in 0..nv {
        for deg in 1..=hb + 1 {
            v.push(coeff_of(blind, &SparseTerm::new(vec![(var, deg)])));
        }
    }
    v
}

fn lcomm(label: &str, c: G1Affine) -> LabeledCommitment<Comm> {
    LabeledCommitment::new(
        label.to_string(),
        marlin_pc::Commitment {
            comm: kzg10::Commitment(c),
            shifted_comm: None,
        },
        None,
    )
}

fn check_impl(vk: &VK, comms: &[LabeledCommitment<Comm>], z: &Vec<Fr>, vs: &[Fr], proof: &Proof<Bls12_381>, sponge: &LogSponge) -> (ImplOutcome, Vec<Fr>) {
    let mut sp = sponge.clone();
    let out = guarded(|| PC::check(vk, comms, z, vs.to_vec(), proof, &mut sp, None));
    let xis = sp.challenges();
    let o = match out {
        Ok(Ok(b)) => ImplOutcome::Ok(vec![("b".into(), Expect::Bool(b))]),
        Ok(Err(e)) => ImplOutcome::Refuse(err_kind(&e)),
        Err(a) => ImplOutcome::Refuse(a),
    };
    (o, xis)
}

fn accepted(o: &ImplOutcome) -> bool {
    matches!(o, ImplOutcome::Ok(kvs) if kvs.iter().any(|(k, e)| k == "b" && matches!(e, Expect::Bool(true))))
}

/// `w_i(beta)` of the sequential division, by evaluation only:
/// `(f(z_<i, beta_>=i) - f(z_<=i, beta_>i)) / (beta_i - z_i)`
fn quotient_at(f: &MvPoly, z: &[Fr], betas: &[Fr], i: usize) -> Option<Fr> {
    let mut a: Vec<Fr> = betas.to_vec();
    for j in 0..i {
        a[j] = z[j];
    }
    let mut b = a.clone();
    b[i] = z[i];
    let den = (betas[i] - z[i]).inverse()?;
    Some((f.evaluate(&a) - f.evaluate(&b)) * den)
}

fn trapdoor_case(ctx: &mut Ctx, tag: &str, i: usize) {
    let id = format!("{}/pst13/{}", tag, i);
    if !ctx.selected(&id) {
        return;
    }
    let mut rng = rng_for(ctx.seed, &format!("{}/pst13", tag), i as u64);
    let (max_nv, max_d) = if ctx.thorough { (5, 5) } else { (3, 4) };
    let nv = if range(&mut rng, 0, 5) == 0 { 1 } else { range(&mut rng, 2, max_nv) };
    let d = if range(&mut rng, 0, 5) == 0 { 1 } else { range(&mut rng, 2, max_d) };
    let s = if range(&mut rng, 0, 2) > 0 { d } else { range(&mut rng, 1, d) };
    let trap = Trap::random(&mut rng, nv, d);
    let pp = trap.params();
    let head = format!("{}# supported_degree={} case={} seed={}\n", trap.desc(), s, id, ctx.seed);
    let (ck, vk): (CK, VK) = match guarded(|| PC::trim(&pp, s, 0, None)) {
        Ok(Ok(x)) => x,
        other => {
            ctx.rep.expect_fail(&id, "pst13/trim-refused", &format!("trim refused in-domain parameters: {:?}", other.err()), head);
            return;
        }
    };
    // the model derives the same keys from the scalars with its own setup + trim
    if i % 8 == 0 {
        let kscal: Vec<Fr> = ck.powers_of_g.keys().map(|t| trap.g * t.evaluate::<Fr>(&trap.betas)).collect();
        let _ = kscal;
        ctx.ses.ask(
            &format!("{}/keys", id),
            trap.key_args(Req::new("c15.trim"), s),
            ImplOutcome::Ok(vec![
                ("keys".into(), Expect::Raw(terms_val(ck.powers_of_g.keys()))),
                ("vals".into(), Expect::G1s(ck.powers_of_g.values().cloned().collect())),
                ("g".into(), Expect::G1(vk.g)),
                ("gamma_g".into(), Expect::G1(vk.gamma_g)),
                ("h".into(), Expect::G2(vk.h)),
            ]),
        );
    }
    let npoly = if range(&mut rng, 0, 2) == 0 { range(&mut rng, 2, 3) } else { 1 };
    let mut polys: Vec<LabeledPolynomial<Fr, MvPoly>> = vec![];
    let mut kinds = vec![];
    let mut hbs = vec![];
    for j in 0..npoly {
        let deg = if range(&mut rng, 0, 2) > 0 { s } else { range(&mut rng, 0, s) };
        let (p, kind) = gen_poly(&mut rng, nv, deg);
        let hb = if coin(&mut rng) { Some(range(&mut rng, 1, s)) } else { None };
        kinds.push(kind);
        hbs.push(hb);
        polys.push(LabeledPolynomial::new(format!("p{}", j), p, None, hb));
    }
    let desc = format!("pst13 nv={} D={} s={} polys={:?} hiding={:?}", nv, d, s, kinds, hbs);
    let ptxt = format!(
        "{}# polynomials: {}\n# hiding bounds: {:?}\n",
        head,
        polys_val(&polys.iter().map(|p| p.polynomial().clone()).collect::<Vec<_>>()),
        hbs
    );
    // commit
    let (comms, states): (Vec<LabeledCommitment<Comm>>, Vec<Rand>) = match guarded(|| PC::commit(&ck, polys.iter(), Some(&mut rng))) {
        Ok(Ok(x)) => x,
        other => {
            ctx.rep.expect_fail(
                &id,
                "pst13/commit-refused",
                &format!("commit refused a polynomial within the supported degree: {:?}", other.err().or(Some("Err".into()))),
                ptxt,
            );
            ctx.rep.case(&desc, None);
            return;
        }
    };
    let mut c_scalars = vec![];
    let mut key_defined = true;
    for j in 0..npoly {
        let p = polys[j].polynomial();
        let blind = &states[j].blinding_polynomial;
        let draws = match hbs[j] {
            Some(hb) => draws_of(blind, nv, hb),
            None => vec![],
        };
        ctx.ses.ask(
            &format!("{}/commit{}", id, j),
            trap.key_args(Req::new("c15.commit"), s)
                .arg("p", poly_val(p))
                .arg("hb", wire::opt_nat(hbs[j]))
                .arg("rng", wire::boolean(true))
                .arg("draws", wire::fes(&draws)),
            ImplOutcome::Ok(vec![
                ("c".into(), Expect::G1(comms[j].commitment().comm.0)),
                ("blind".into(), Expect::Raw(poly_val(blind))),
            ]),
        );
        let cs = trap.g * p.evaluate(&trap.betas) + trap.gamma * blind.evaluate(&trap.betas);
        if g1(cs) != comms[j].commitment().comm.0 {
            key_defined = false;
            ctx.rep.expect_fail(
                &id,
                "pst13/commitment-not-key-defined",
                &format!("commitment {} != g·p(beta) + gamma·r(beta)", j),
                ptxt.clone(),
            );
        }
        if hbs[j].is_some() != !blind.is_zero() {
            ctx.rep.count("pst13/blinding-zero-with-hiding");
        }
        c_scalars.push(cs);
        ctx.rep.count(&format!("pst13/poly-{}", kinds[j]));
        ctx.rep.count(if hbs[j].is_some() { "pst13/hiding" } else { "pst13/non-hiding" });
        // evaluation and degree of the model's polynomial type
        if j == 0 {
            let zz: Vec<Fr> = (0..nv).map(|_| Fr::rand(&mut rng)).collect();
            ctx.ses.ask(
                &format!("{}/eval", id),
                Req::new("c15.eval").arg("p", poly_val(p)).arg("z", wire::fes(&zz)),
                ImplOutcome::Ok(vec![
                    ("v".into(), Expect::Fe(p.evaluate(&zz))),
                    ("deg".into(), Expect::Nat(p.degree())),
                ]),
            );
        }
    }
    // open at a random point (sometimes with zero / repeated coordinates)
    let mut z: Vec<Fr> = (0..nv).map(|_| Fr::rand(&mut rng)).collect();
    match range(&mut rng, 0, 7) {
        0 => z[range(&mut rng, 0, nv - 1)] = Fr::zero(),
        1 => {
            let c = z[0];
            for x in z.iter_mut() {
                *x = c;
            }
        }
        _ => {}
    }
    let mut sponge = fresh();
    sponge.absorb_seed(i as u64);
    let vsponge = sponge.clone();
    let proof: Proof<Bls12_381> = match guarded(|| PC::open(&ck, polys.iter(), comms.iter(), &z, &mut sponge, states.iter(), None)) {
        Ok(Ok(p)) => p,
        other => {
            ctx.rep.expect_fail(
                &id,
                "pst13/open-refused",
                &format!("open refused a committed polynomial: {:?}", other.err().or(Some("Err".into()))),
                format!("{}# point {}\n", ptxt, wire::fes(&z)),
            );
            ctx.rep.case(&desc, None);
            return;
        }
    };
    let xis = sponge.challenges();
    let any_hiding = hbs.iter().any(|h| h.is_some());
    let plain: Vec<MvPoly> = polys.iter().map(|p| p.polynomial().clone()).collect();
    let blinds: Vec<MvPoly> = states.iter().map(|s| s.blinding_polynomial.clone()).collect();
    ctx.ses.ask(
        &format!("{}/open", id),
        trap.key_args(Req::new("c15.open"), s)
            .arg("nvp", wire::nat(nv))
            .arg("nvr", wire::nat(if any_hiding { nv } else { 0 }))
            .arg("ps", polys_val(&plain))
            .arg("z", wire::fes(&z))
            .arg("rs", polys_val(&blinds))
            .arg("xis", wire::fes(&xis)),
        ImplOutcome::Ok(vec![
            ("w".into(), Expect::G1s(proof.w.clone())),
            ("rv".into(), Expect::OptFe(proof.random_v)),
        ]),
    );
    if xis.len() != npoly {
        ctx.rep.count("pst13/unexpected-squeeze-count");
    }
    // witness scalars by evaluation (needs beta_i != z_i)
    let mut w_scalars: Option<Vec<Fr>> = Some(vec![]);
    if xis.len() == npoly {
        for v in 0..nv {
            let mut acc = Fr::zero();
            let mut ok = true;
            for j in 0..npoly {
                match (quotient_at(&plain[j], &z, &trap.betas, v), quotient_at(&blinds[j], &z, &trap.betas, v)) {
                    (Some(a), Some(b)) => acc += xis[j] * (trap.g * a + trap.gamma * b),
                    _ => ok = false,
                }
            }
            match (&mut w_scalars, ok) {
                (Some(ws), true) => ws.push(acc),
                _ => w_scalars = None,
            }
        }
    } else {
        w_scalars = None;
    }
    if let Some(ws) = &w_scalars {
        if proof.w.len() != nv || ws.iter().zip(proof.w.iter()).any(|(s, w)| g1(*s) != *w) {
            ctx.rep.count("pst13/witness-differs-from-sequential-quotient");
            w_scalars = None;
        }
    }
    let values: Vec<Fr> = plain.iter().map(|p| p.evaluate(&z)).collect();
    let (out, vxis) = check_impl(&vk, &comms, &z, &values, &proof, &vsponge);
    if !accepted(&out) {
        ctx.rep.expect_fail(
            &id,
            "pst13/honest-rejected",
            &format!("honest proof of a true claim was not accepted: {:?}", out),
            format!("{}# point {}\n# values {}\n", ptxt, wire::fes(&z), wire::fes(&values)),
        );
    }
    let ask_check = |ctx: &mut Ctx, cid: &str, cs: &[Fr], z: &[Fr], vs: &[Fr], ws: &[Fr], rv: &Option<Fr>, xis: &[Fr], out: ImplOutcome| {
        ctx.ses.ask(
            cid,
            trap.key_args(Req::new("c15.check"), s)
                .arg("cs", wire::fes(cs))
                .arg("z", wire::fes(z))
                .arg("vs", wire::fes(vs))
                .arg("w", wire::fes(ws))
                .arg("rv", wire::opt_fe(rv))
                .arg("xis", wire::fes(xis)),
            out,
        );
    };
    if let (Some(ws), true) = (&w_scalars, key_defined) {
        ask_check(ctx, &format!("{}/check", id), &c_scalars, &z, &values, ws, &proof.random_v, &vxis, out.clone());
        // mutated claims
        // (1) value + delta
        let j = range(&mut rng, 0, npoly - 1);
        let mut vs2 = values.clone();
        vs2[j] += rand_nonzero(&mut rng);
        let (o2, x2) = check_impl(&vk, &comms, &z, &vs2, &proof, &vsponge);
        if accepted(&o2) {
            ctx.rep.expect_fail(&id, "pst13/false-value-accepted", "value + delta accepted with the honest proof", format!("{}# point {}\n# claimed values {}\n", ptxt, wire::fes(&z), wire::fes(&vs2)));
        }
        ask_check(ctx, &format!("{}/mut-value", id), &c_scalars, &z, &vs2, ws, &proof.random_v, &x2, o2);
        // (2) another point
        let mut z2 = z.clone();
        let v = range(&mut rng, 0, nv - 1);
        z2[v] += rand_nonzero(&mut rng);
        let claim_false = plain.iter().zip(values.iter()).any(|(p, val)| p.evaluate(&z2) != *val);
        let (o3, x3) = check_impl(&vk, &comms, &z2, &values, &proof, &vsponge);
        if claim_false && accepted(&o3) {
            ctx.rep.expect_fail(&id, "pst13/false-point-accepted", "claim at another point accepted with the honest proof", format!("{}# proof for {}\n# checked at {}\n", ptxt, wire::fes(&z), wire::fes(&z2)));
        }
        ask_check(ctx, &format!("{}/mut-point", id), &c_scalars, &z2, &values, ws, &proof.random_v, &x3, o3);
        ctx.rep.count(if claim_false { "pst13/mut-point-false" } else { "pst13/mut-point-still-true" });
        // (3) another commitment: to a different polynomial, or a random element
        let mut cs2 = c_scalars.clone();
        let what = if coin(&mut rng) {
            let (q, _) = gen_poly(&mut rng, nv, s);
            let q = &q + &MvPoly::from_coefficients_vec(nv, vec![(rand_nonzero(&mut rng), SparseTerm::new(vec![(0, 1)]))]);
            cs2[j] = trap.g * q.evaluate(&trap.betas);
            if q.evaluate(&z) == values[j] && states[j].blinding_polynomial.is_zero() {
                // the changed commitment still opens to the claimed value only by accident
                ctx.rep.count("pst13/mut-comm-coincidence");
            }
            "other-poly"
        } else {
            cs2[j] = Fr::rand(&mut rng);
            "random"
        };
        let mut comms2 = comms.clone();
        comms2[j] = lcomm(comms[j].label(), g1(cs2[j]));
        let (o4, x4) = check_impl(&vk, &comms2, &z, &values, &proof, &vsponge);
        if accepted(&o4) && cs2[j] != c_scalars[j] {
            ctx.rep.expect_fail(&id, "pst13/other-commitment-accepted", &format!("honest proof accepted against another commitment ({})", what), format!("{}# commitment {} replaced by scalar {}\n", ptxt, j, wire::fe(&cs2[j])));
        }
        ask_check(ctx, &format!("{}/mut-comm", id), &cs2, &z, &values, ws, &proof.random_v, &x4, o4);
        ctx.rep.count(&format!("pst13/mut-comm-{}", what));
    }
    let mixed = plain.iter().any(|p| p.terms().iter().any(|(_, t)| t.len() >= 2));
    ctx.rep.case(
        &desc,
        Some(format!("pst13/{}/{}/{}/{:?}/{:?}/{}", nv, d, s, kinds, hbs.iter().map(|h| h.is_some()).collect::<Vec<_>>(), mixed)),
    );
    if mixed {
        ctx.rep.count("pst13/has-mixed-monomial");
    }
}

fn fresh() -> LogSponge {
    LogSponge::fresh()
}

/// requests the committer must refuse: hiding bound 0 / too large, degree above the supported one,
/// hiding without an RNG (a panic in `OptionalRng`)
fn refusal_case(ctx: &mut Ctx, i: usize) {
    let id = format!("C15/pst13-refuse/{}", i);
    let mut rng = rng_for(ctx.seed, "C15/pst13-refuse", i as u64);
    let nv = range(&mut rng, 1, 3);
    let d = range(&mut rng, 2, 4);
    let s = range(&mut rng, 1, d - 1);
    let trap = Trap::random(&mut rng, nv, d);
    let pp = trap.params();
    let (ck, _vk): (CK, VK) = match guarded(|| PC::trim(&pp, s, 0, None)) {
        Ok(Ok(x)) => x,
        _ => return,
    };
    let kind = i % 4;
    let (p, hb, with_rng, what) = match kind {
        0 => (gen_poly(&mut rng, nv, s).0, Some(0usize), true, "hiding-bound-zero"),
        1 => (gen_poly(&mut rng, nv, s).0, Some(s + 1 + range(&mut rng, 0, 2)), true, "hiding-bound-too-large"),
        2 => {
            let mut t = vec![(0usize, s + 1)];
            if nv > 1 && s >= 1 {
                t = vec![(0, s), (1, 1)];
            }
            (MvPoly::from_coefficients_vec(nv, vec![(rand_nonzero(&mut rng), SparseTerm::new(t))]), None, true, "degree-too-large")
        }
        _ => (gen_poly(&mut rng, nv, s).0, Some(range(&mut rng, 1, s)), false, "hiding-without-rng"),
    };
    let lp = LabeledPolynomial::new("p".to_string(), p.clone(), None, hb);
    let out = if with_rng {
        guarded(|| PC::commit(&ck, [&lp], Some(&mut rng)))
    } else {
        guarded(|| PC::commit(&ck, [&lp], None))
    };
    let draws: Vec<Fr> = (0..1 + nv * (hb.unwrap_or(0) + 1)).map(|_| Fr::rand(&mut rng)).collect();
    let req = trap
        .key_args(Req::new("c15.commit"), s)
        .arg("p", poly_val(&p))
        .arg("hb", wire::opt_nat(hb))
        .arg("rng", wire::boolean(with_rng))
        .arg("draws", wire::fes(&draws));
    match out {
        Ok(Ok(_)) => {
            ctx.rep.expect_fail(&id, &format!("pst13/commit-accepted-{}", what), &format!("commit accepted an out-of-domain request ({})", what), format!("{}# s={} p={} hb={:?}\n", trap.desc(), s, poly_val(&p), hb));
        }
        Ok(Err(e)) => ctx.ses.ask(&id, req, ImplOutcome::Refuse(err_kind(&e))),
        Err(a) => ctx.ses.ask(&id, req, ImplOutcome::Refuse(a)),
    }
    ctx.rep.count(&format!("pst13/refusal-{}", what));
    ctx.rep.case(&format!("pst13 refusal {} nv={} D={} s={}", what, nv, d, s), None);
}

// ------------------------------------------------------------------------------------------------
// batches through `batch_open` / `check` / `batch_check` (C01, C02, C05, and the
// fewer-declared-variables cases of C15)
// ------------------------------------------------------------------------------------------------

#[derive(Clone, Copy, PartialEq, Eq, Debug)]
enum Declared {
    /// every polynomial declared over the key's variables
    Full,
    /// every polynomial declared over 0..nv-1 variables (0: the zero polynomial)
    Fewer,
}

/// One batch: `npoly` committed polynomials, `npoints` point labels each querying a non-empty subset,
/// the values at the positions in `false_at` (indices into the sorted query list) moved by a
/// non-zero delta.  Runs `batch_open`, the individual `check`s on the running sponge (so each sees
/// the challenges it sees inside the batch), and `batch_check`; compares all three with the model
/// and with the expectations: all-true => accepted, some false => rejected, batch == AND(checks).
fn batch_case(ctx: &mut Ctx, id: &str, rng: &mut Rng, declared: Declared, n_false: usize, single: bool) {
    if !ctx.selected(id) {
        return;
    }
    let (max_nv, max_d) = if ctx.thorough { (4, 4) } else { (3, 3) };
    let nv = match declared {
        Declared::Fewer => range(rng, 2, max_nv),
        Declared::Full => range(rng, 1, max_nv),
    };
    let d = range(rng, 1, max_d);
    let s = if coin(rng) { d } else { range(rng, 1, d) };
    let trap = Trap::random(rng, nv, d);
    let pp = trap.params();
    let head = format!("{}# supported_degree={} case={} seed={}\n", trap.desc(), s, id, ctx.seed);
    let fail_sig = |what: &str| -> String {
        if declared == Declared::Fewer {
            "pst13/fewer-declared-variables".to_string()
        } else {
            format!("pst13/{}", what)
        }
    };
    let (ck, vk): (CK, VK) = match guarded(|| PC::trim(&pp, s, 0, None)) {
        Ok(Ok(x)) => x,
        _ => return,
    };
    let npoly = if single { 1 } else { range(rng, 1, 4) };
    let npoints = if single { 1 } else { range(rng, 1, 3) };
    let mut polys: Vec<LabeledPolynomial<Fr, MvPoly>> = vec![];
    let mut hbs = vec![];
    let mut decl = vec![];
    for j in 0..npoly {
        let deg = if coin(rng) { s } else { range(rng, 0, s) };
        let p = match declared {
            Declared::Full => gen_poly(rng, nv, deg).0,
            Declared::Fewer => {
                let nvp = range(rng, 0, nv - 1);
                if nvp == 0 {
                    <MvPoly as Zero>::zero()
                } else {
                    let (q, _) = gen_poly(rng, nvp, deg);
                    MvPoly::from_coefficients_vec(nvp, q.terms().to_vec())
                }
            }
        };
        let hb = if coin(rng) { Some(range(rng, 1, s)) } else { None };
        decl.push(p.num_vars());
        hbs.push(hb);
        polys.push(LabeledPolynomial::new(format!("p{}", j), p, None, hb));
    }
    let desc = format!(
        "pst13 batch nv={} D={} s={} polys={} declared={:?} hiding={:?} points={} false={}",
        nv, d, s, npoly, decl, hbs.iter().map(|h| h.is_some()).collect::<Vec<_>>(), npoints, n_false
    );
    let ptxt = format!(
        "{}# polynomials: {}\n# declared num_vars: {:?}\n# hiding bounds: {:?}\n",
        head,
        polys_val(&polys.iter().map(|p| p.polynomial().clone()).collect::<Vec<_>>()),
        decl,
        hbs
    );
    let (comms, states): (Vec<LabeledCommitment<Comm>>, Vec<Rand>) =
        match guarded(|| PC::commit(&ck, polys.iter(), Some(&mut *rng))) {
            Ok(Ok(x)) => x,
            other => {
                ctx.rep.expect_fail(id, &fail_sig("commit-refused"), &format!("commit refused an in-domain polynomial: {:?}", other.err().or(Some("Err".into()))), ptxt);
                ctx.rep.case(&desc, None);
                return;
            }
        };
    let plain: Vec<MvPoly> = polys.iter().map(|p| p.polynomial().clone()).collect();
    let blinds: Vec<MvPoly> = states.iter().map(|s| s.blinding_polynomial.clone()).collect();
    let c_scalars: Vec<Fr> = (0..npoly)
        .map(|j| trap.g * plain[j].evaluate(&trap.betas) + trap.gamma * blinds[j].evaluate(&trap.betas))
        .collect();
    if (0..npoly).any(|j| g1(c_scalars[j]) != comms[j].commitment().comm.0) {
        ctx.rep.expect_fail(id, "pst13/commitment-not-key-defined", "commitment != g·p(beta) + gamma·r(beta)", ptxt);
        ctx.rep.case(&desc, None);
        return;
    }
    // the query set: point label k -> (point, sorted subset of polynomials)
    let mut groups: Vec<(String, Vec<Fr>, Vec<usize>)> = vec![];
    for k in 0..npoints {
        let z: Vec<Fr> = (0..nv).map(|_| Fr::rand(rng)).collect();
        let mut subset: Vec<usize> = (0..npoly).filter(|_| coin(rng)).collect();
        if subset.is_empty() {
            subset.push(range(rng, 0, npoly - 1));
        }
        groups.push((format!("z{}", k), z, subset));
    }
    let mut qs: ark_poly_commit::QuerySet<Vec<Fr>> = ark_poly_commit::QuerySet::new();
    let mut evals: ark_poly_commit::Evaluations<Vec<Fr>, Fr> = ark_poly_commit::Evaluations::new();
    let mut positions: Vec<(usize, usize)> = vec![];
    for (k, (pl, z, subset)) in groups.iter().enumerate() {
        for &j in subset {
            qs.insert((format!("p{}", j), (pl.clone(), z.clone())));
            evals.insert((format!("p{}", j), z.clone()), plain[j].evaluate(z));
            positions.push((k, j));
        }
    }
    // false claims
    let mut false_groups: Vec<usize> = vec![];
    let mut left = n_false;
    while left > 0 && false_groups.len() < positions.len() {
        let (k, j) = positions[range(rng, 0, positions.len() - 1)];
        let key = (format!("p{}", j), groups[k].1.clone());
        let truth = plain[j].evaluate(&groups[k].1);
        if evals[&key] == truth {
            evals.insert(key, truth + rand_nonzero(rng));
            left -= 1;
        }
        if !false_groups.contains(&k) {
            false_groups.push(k);
        }
    }
    let mut sponge = fresh();
    sponge.absorb_seed(0xC15);
    let vsponge0 = sponge.clone();
    let proofs: Vec<Proof<Bls12_381>> = match guarded(|| PC::batch_open(&ck, polys.iter(), comms.iter(), &qs, &mut sponge, states.iter(), Some(&mut *rng))) {
        Ok(Ok(p)) => p,
        other => {
            ctx.rep.expect_fail(id, &fail_sig("open-refused"), &format!("batch_open refused committed polynomials: {:?}", other.err().or(Some("Err".into()))), ptxt);
            ctx.rep.case(&desc, None);
            return;
        }
    };
    let pxis = sponge.challenges();
    let total: usize = groups.iter().map(|g| g.2.len()).sum();
    if proofs.len() != groups.len() || pxis.len() != total {
        ctx.rep.count("pst13/batch-unexpected-shape");
        ctx.rep.case(&desc, None);
        return;
    }
    // per group: model open, witness scalars, individual check on the running verifier sponge
    let mut off = 0;
    let mut run_sponge = vsponge0.clone();
    let mut all_individual = true;
    let mut css: Vec<Vec<Fr>> = vec![];
    let mut vss: Vec<Vec<Fr>> = vec![];
    let mut wss: Vec<Vec<Fr>> = vec![];
    let mut scalars_ok = true;
    for (k, (_pl, z, subset)) in groups.iter().enumerate() {
        let xis = &pxis[off..off + subset.len()];
        off += subset.len();
        let gp: Vec<MvPoly> = subset.iter().map(|&j| plain[j].clone()).collect();
        let gr: Vec<MvPoly> = subset.iter().map(|&j| blinds[j].clone()).collect();
        let nvp = gp.iter().map(|p| p.num_vars()).max().unwrap_or(0);
        let nvr = gr.iter().map(|p| p.num_vars()).max().unwrap_or(0);
        ctx.ses.ask(
            &format!("{}/open{}", id, k),
            trap.key_args(Req::new("c15.open"), s)
                .arg("nvp", wire::nat(nvp))
                .arg("nvr", wire::nat(nvr))
                .arg("ps", polys_val(&gp))
                .arg("z", wire::fes(z))
                .arg("rs", polys_val(&gr))
                .arg("xis", wire::fes(xis)),
            ImplOutcome::Ok(vec![
                ("w".into(), Expect::G1s(proofs[k].w.clone())),
                ("rv".into(), Expect::OptFe(proofs[k].random_v)),
            ]),
        );
        let mut ws = vec![];
        for v in 0..nv {
            let mut acc = Fr::zero();
            for (t, _) in subset.iter().enumerate() {
                match (quotient_at_padded(&gp[t], z, &trap.betas, v), quotient_at_padded(&gr[t], z, &trap.betas, v)) {
                    (Some(a), Some(b)) => acc += xis[t] * (trap.g * a + trap.gamma * b),
                    _ => scalars_ok = false,
                }
            }
            ws.push(acc);
        }
        if proofs[k].w.len() != nv || ws.iter().zip(proofs[k].w.iter()).any(|(s, w)| g1(*s) != *w) {
            scalars_ok = false;
        }
        let gcomms: Vec<LabeledCommitment<Comm>> = subset.iter().map(|&j| comms[j].clone()).collect();
        let gvals: Vec<Fr> = subset.iter().map(|&j| evals[&(format!("p{}", j), z.clone())]).collect();
        let before = run_sponge.challenges().len();
        let out = guarded(|| PC::check(&vk, gcomms.iter(), z, gvals.clone(), &proofs[k], &mut run_sponge, None));
        let vx: Vec<Fr> = run_sponge.challenges()[before..].to_vec();
        let o = match out {
            Ok(Ok(b)) => ImplOutcome::Ok(vec![("b".into(), Expect::Bool(b))]),
            Ok(Err(e)) => ImplOutcome::Refuse(err_kind(&e)),
            Err(a) => ImplOutcome::Refuse(a),
        };
        let acc_k = accepted(&o);
        all_individual &= acc_k;
        let claim_true = !false_groups.contains(&k);
        if claim_true && !acc_k {
            ctx.rep.expect_fail(id, &fail_sig("honest-rejected"), &format!("check rejected the honest proof of point label {} (declared num_vars {:?}): {:?}", k, decl, o), format!("{}# point {} = {}\n", ptxt, k, wire::fes(z)));
        }
        if !claim_true && acc_k {
            ctx.rep.expect_fail(id, "pst13/false-value-accepted", &format!("check accepted a false value at point label {}", k), format!("{}# point {} = {}\n", ptxt, k, wire::fes(z)));
        }
        if scalars_ok {
            ctx.ses.ask(
                &format!("{}/check{}", id, k),
                trap.key_args(Req::new("c15.check"), s)
                    .arg("cs", wire::fes(&subset.iter().map(|&j| c_scalars[j]).collect::<Vec<_>>()))
                    .arg("z", wire::fes(z))
                    .arg("vs", wire::fes(&gvals))
                    .arg("w", wire::fes(&ws))
                    .arg("rv", wire::opt_fe(&proofs[k].random_v))
                    .arg("xis", wire::fes(&vx)),
                o,
            );
        }
        css.push(subset.iter().map(|&j| c_scalars[j]).collect());
        vss.push(gvals);
        wss.push(ws);
    }
    // batch_check
    let rs = crate::kzg::replay_u128(rng, groups.len());
    let mut bsponge = vsponge0.clone();
    let bout = guarded(|| PC::batch_check(&vk, comms.iter(), &qs, &evals, &proofs, &mut bsponge, &mut *rng));
    let bxis = bsponge.challenges();
    let bo = match bout {
        Ok(Ok(b)) => ImplOutcome::Ok(vec![("b".into(), Expect::Bool(b))]),
        Ok(Err(e)) => ImplOutcome::Refuse(err_kind(&e)),
        Err(a) => ImplOutcome::Refuse(a),
    };
    let bacc = accepted(&bo);
    if false_groups.is_empty() && !bacc {
        ctx.rep.expect_fail(id, &fail_sig("honest-batch-rejected"), &format!("batch_check did not accept an all-true batch (declared num_vars {:?}): {:?}", decl, bo), ptxt.clone());
    }
    if !false_groups.is_empty() && bacc {
        ctx.rep.expect_fail(id, "pst13/batch-false-accepted", &format!("batch_check accepted a batch with false claims at point labels {:?}", false_groups), ptxt.clone());
    }
    if matches!(bo, ImplOutcome::Ok(_)) && bacc != all_individual {
        ctx.rep.expect_fail(id, "pst13/batch-differs-from-individual", &format!("batch_check={} but AND(check_k)={}", bacc, all_individual), ptxt.clone());
    }
    if scalars_ok {
        ctx.ses.ask(
            &format!("{}/batch", id),
            trap.key_args(Req::new("c15.batch_check_q"), s)
                .arg("css", wire::fess(&css))
                .arg("vss", wire::fess(&vss))
                .arg("zs", wire::fess(&groups.iter().map(|g| g.1.clone()).collect::<Vec<_>>()))
                .arg("ws", wire::fess(&wss))
                .arg("rvs", Val::L(proofs.iter().map(|p| wire::opt_fe(&p.random_v)).collect()))
                .arg("xis", wire::fes(&bxis))
                .arg("rs", wire::fes(&rs)),
            bo,
        );
    } else {
        ctx.rep.count("pst13/batch-scalars-unavailable");
    }
    ctx.rep.count(&format!("pst13/batch-points-{}", groups.len()));
    ctx.rep.count(&format!("pst13/batch-false-{}", false_groups.len()));
    if declared == Declared::Fewer {
        ctx.rep.count("pst13/fewer-declared-variables");
    }
    ctx.rep.case(
        &desc,
        Some(format!("pst13-batch/{}/{}/{}/{:?}/{:?}/{}/{}", nv, d, s, decl, hbs.iter().map(|h| h.is_some()).collect::<Vec<_>>(), groups.len(), false_groups.len())),
    );
}

/// `quotient_at` for a polynomial that may be declared over fewer variables than the key: the
/// quotients of the undeclared variables are zero
fn quotient_at_padded(f: &MvPoly, z: &[Fr], betas: &[Fr], i: usize) -> Option<Fr> {
    if i >= f.num_vars() || f.is_zero() {
        return Some(Fr::zero());
    }
    quotient_at(f, z, betas, i)
}

/// Model-backed PST13 cases of the shared properties (wired from main.rs).
pub fn run_prop(ctx: &mut Ctx, prop: &str) {
    match prop {
        "C01" => {
            let n = ctx.n(16, 200);
            for i in 0..n {
                let mut rng = rng_for(ctx.seed, "C01/pst13-batch", i as u64);
                let declared = if i % 4 == 3 { Declared::Fewer } else { Declared::Full };
                batch_case(ctx, &format!("C01/pst13-batch/{}", i), &mut rng, declared, 0, i % 5 == 0);
            }
            ctx.flush_model("C01-pst13");
        }
        "C02" => {
            let n = ctx.n(16, 200);
            for i in 0..n {
                trapdoor_case(ctx, "C02", i);
            }
            ctx.flush_model("C02-pst13");
            let nb = ctx.n(10, 120);
            for i in 0..nb {
                let mut rng = rng_for(ctx.seed, "C02/pst13-batch", i as u64);
                let declared = if i % 4 == 3 { Declared::Fewer } else { Declared::Full };
                batch_case(ctx, &format!("C02/pst13-batch/{}", i), &mut rng, declared, 1, i % 5 == 0);
            }
            ctx.flush_model("C02-pst13-batch");
        }
        "C05" => {
            let n = ctx.n(20, 250);
            for i in 0..n {
                let mut rng = rng_for(ctx.seed, "C05/pst13-batch", i as u64);
                let declared = if i % 5 == 4 { Declared::Fewer } else { Declared::Full };
                let n_false = match i % 3 {
                    0 => 0,
                    1 => 1,
                    _ => range(&mut rng, 1, 3),
                };
                batch_case(ctx, &format!("C05/pst13-batch/{}", i), &mut rng, declared, n_false, false);
            }
            ctx.flush_model("C05-pst13");
        }
        "C07" => {
            let n = ctx.n(24, 300);
            for i in 0..n {
                blinding_case(ctx, i);
            }
            ctx.flush_model("C07-pst13");
        }
        _ => {}
    }
}

/// C07: the blinding polynomial of a hiding PST13 commitment is built from exactly
/// `1 + num_vars·(hb+1)` field draws of the caller's RNG (replayed from a clone, in order:
/// constant, then per variable the degrees 1..hb+1); without hiding the RNG is untouched and the
/// proof carries no `random_v`; with hiding `random_v` is the blinding value at the point.
fn blinding_case(ctx: &mut Ctx, i: usize) {
    let id = format!("C07/pst13/{}", i);
    if !ctx.selected(&id) {
        return;
    }
    let mut rng = rng_for(ctx.seed, "C07/pst13", i as u64);
    let nv = range(&mut rng, 1, if ctx.thorough { 4 } else { 3 });
    let d = range(&mut rng, 1, 4);
    let s = range(&mut rng, 1, d);
    let trap = Trap::random(&mut rng, nv, d);
    let pp = trap.params();
    let (ck, vk): (CK, VK) = match guarded(|| PC::trim(&pp, s, 0, None)) {
        Ok(Ok(x)) => x,
        _ => return,
    };
    let (p, kind) = gen_poly(&mut rng, nv, s);
    let hb = if i % 3 == 0 { None } else { Some(range(&mut rng, 1, s)) };
    let head = format!("{}# s={} p={} hb={:?} case={} seed={}\n", trap.desc(), s, poly_val(&p), hb, id, ctx.seed);
    let lp = LabeledPolynomial::new("p".to_string(), p.clone(), None, hb);
    // replay the draws the committer is expected to take
    let mut replay = rng.clone();
    let ndraws = hb.map(|h| 1 + nv * (h + 1)).unwrap_or(0);
    let draws: Vec<Fr> = (0..ndraws).map(|_| Fr::rand(&mut replay)).collect();
    let (comms, states): (Vec<LabeledCommitment<Comm>>, Vec<Rand>) =
        match guarded(|| PC::commit(&ck, [&lp], Some(&mut rng))) {
            Ok(Ok(x)) => x,
            other => {
                ctx.rep.expect_fail(&id, "pst13/commit-refused", &format!("commit refused an in-domain request: {:?}", other.err().or(Some("Err".into()))), head);
                return;
            }
        };
    // the caller's RNG advanced by exactly those draws (none without hiding)
    use ark_std::rand::RngCore;
    if rng.clone().next_u64() != replay.clone().next_u64() {
        ctx.rep.expect_fail(
            &id,
            "pst13/blinding-draw-count",
            &format!("commit with hiding bound {:?} did not consume exactly {} field draws of the caller's RNG", hb, ndraws),
            head.clone(),
        );
    }
    let blind = states[0].blinding_polynomial.clone();
    // expected blinding polynomial: the draws against 1, x_v^j in order
    let mut terms = vec![];
    if hb.is_some() {
        let mut it = draws.iter();
        terms.push((*it.next().unwrap(), SparseTerm::new(vec![])));
        for v in 0..nv {
            for j in 1..=hb.unwrap() + 1 {
                terms.push((*it.next().unwrap(), SparseTerm::new(vec![(v, j)])));
            }
        }
    }
    let want = MvPoly::from_coefficients_vec(nv, terms);
    if want != blind {
        ctx.rep.expect_fail(&id, "pst13/blinding-not-from-draws", "blinding polynomial differs from the replayed draws against 1, x_v^j (j = 1..hb+1)", head.clone());
    }
    if hb.is_none() && !blind.is_zero() {
        ctx.rep.expect_fail(&id, "pst13/blinding-without-hiding", "a non-hiding commitment carries a blinding polynomial", head.clone());
    }
    // commitment = plain + gamma-part
    let plain = trap.g * p.evaluate(&trap.betas);
    let cs = plain + trap.gamma * blind.evaluate(&trap.betas);
    if g1(cs) != comms[0].commitment().comm.0 {
        ctx.rep.expect_fail(&id, "pst13/commitment-not-plain-plus-gamma-part", "commitment != g·p(beta) + gamma·r(beta)", head.clone());
    }
    let mut extra = draws.clone();
    extra.push(Fr::rand(&mut replay));
    ctx.ses.ask(
        &format!("{}/commit", id),
        trap.key_args(Req::new("c15.commit"), s)
            .arg("p", poly_val(&p))
            .arg("hb", wire::opt_nat(hb))
            .arg("rng", wire::boolean(true))
            .arg("draws", wire::fes(&extra)),
        ImplOutcome::Ok(vec![
            ("c".into(), Expect::G1(comms[0].commitment().comm.0)),
            ("blind".into(), Expect::Raw(poly_val(&blind))),
            ("used".into(), Expect::Nat(ndraws)),
        ]),
    );
    // random_v of the opening
    let z: Vec<Fr> = (0..nv).map(|_| Fr::rand(&mut rng)).collect();
    let mut sponge = fresh();
    sponge.absorb_seed(0xC07 + i as u64);
    let vsponge = sponge.clone();
    if let Ok(Ok(proof)) = guarded(|| PC::open(&ck, [&lp], comms.iter(), &z, &mut sponge, states.iter(), None)) {
        let xis = sponge.challenges();
        let want_rv = if blind.is_zero() || xis.is_empty() { None } else { Some(xis[0] * blind.evaluate(&z)) };
        if proof.random_v != want_rv && !(xis.first().map(|x| x.is_zero()).unwrap_or(false)) {
            ctx.rep.expect_fail(&id, "pst13/random-v-not-blinding-value", &format!("random_v = {:?}, expected challenge·r(z) = {:?}", proof.random_v.map(|x| wire::fe(&x).to_string()), want_rv.map(|x| wire::fe(&x).to_string())), head.clone());
        }
        ctx.ses.ask(
            &format!("{}/open", id),
            trap.key_args(Req::new("c15.open"), s)
                .arg("nvp", wire::nat(p.num_vars()))
                .arg("nvr", wire::nat(blind.num_vars()))
                .arg("ps", polys_val(&[p.clone()]))
                .arg("z", wire::fes(&z))
                .arg("rs", polys_val(&[blind.clone()]))
                .arg("xis", wire::fes(&xis)),
            ImplOutcome::Ok(vec![
                ("w".into(), Expect::G1s(proof.w.clone())),
                ("rv".into(), Expect::OptFe(proof.random_v)),
            ]),
        );
        let (o, _) = check_impl(&vk, &comms, &z, &[p.evaluate(&z)], &proof, &vsponge);
        if !accepted(&o) {
            ctx.rep.expect_fail(&id, "pst13/honest-rejected", "honest (hiding) proof rejected", head.clone());
        }
    } else {
        ctx.rep.expect_fail(&id, "pst13/open-refused", "open refused a committed polynomial", head.clone());
    }
    // hiding bound 0 is refused
    if i % 6 == 1 {
        let lp0 = LabeledPolynomial::new("p".to_string(), p.clone(), None, Some(0));
        match guarded(|| PC::commit(&ck, [&lp0], Some(&mut rng))) {
            Ok(Ok(_)) => ctx.rep.expect_fail(&id, "pst13/hiding-bound-zero-accepted", "commit accepted hiding bound 0", head.clone()),
            _ => ctx.rep.count("pst13/hiding-bound-zero-refused"),
        }
    }
    ctx.rep.count(if hb.is_some() { "pst13/c07-hiding" } else { "pst13/c07-non-hiding" });
    ctx.rep.case(
        &format!("pst13 blinding nv={} D={} s={} poly={} hb={:?} draws={}", nv, d, s, kind, hb, ndraws),
        Some(format!("pst13-c07/{}/{}/{:?}/{}", nv, s, hb, kind)),
    );
}

pub fn run(ctx: &mut Ctx) {
    run_combinations(ctx);
    run_setup(ctx);
    let n = ctx.n(120, 1500);
    for i in 0..n {
        trapdoor_case(ctx, "C15", i);
        if i % 40 == 39 {
            ctx.flush_model(&format!("C15-pst13-{}", i / 40));
        }
    }
    ctx.flush_model("C15-pst13-last");
    let nr = ctx.n(16, 120);
    for i in 0..nr {
        refusal_case(ctx, i);
    }
    ctx.flush_model("C15-pst13-refuse");
    // polynomials declared over fewer variables than the key (0..nv-1; the zero polynomial declared
    // over 0 variables), with and without hiding, through check AND batch_check: must accept
    let np = ctx.n(24, 200);
    for i in 0..np {
        let mut rng = rng_for(ctx.seed, "C15/pst13-fewer-vars", i as u64);
        batch_case(ctx, &format!("C15/pst13-fewer-vars/{}", i), &mut rng, Declared::Fewer, 0, i % 2 == 0);
    }
    ctx.flush_model("C15-pst13-fewer-vars");
    // development aid: `PCV_C15_ALSO=C05 pcv-harness C15` also runs the PST13 cases of that property
    if let Ok(p) = std::env::var("PCV_C15_ALSO") {
        run_prop(ctx, &p);
    }
}
