//! Property C11 — correspondence / expectation run (see DESIGN.md §5, C11).
use crate::Ctx;

pub fn run(ctx: &mut Ctx) {
    let _ = ctx;
}
