//! Property C11 — prover/verifier transcripts stay in lock-step; proofs are bound to them.
use crate::Ctx;

pub fn run(ctx: &mut Ctx) {
    crate::generic::c11_all(ctx);
    crate::props_marlin::c11(ctx);
}
