//! Property C11 — prover/verifier transcripts stay in lock-step; proofs are bound to them.
use crate::common::*;
use crate::generic::{ColH, MTConfig, MlLigeroPC, UniLigeroPC, UniPoly};
use crate::Ctx;
use ark_bls12_381::Fr;
use ark_crypto_primitives::sponge::CryptographicSponge;
use ark_ff::UniformRand;
use ark_poly::{DenseUVPolynomial, MultilinearExtension, Polynomial, SparseMultilinearExtension};
use ark_poly_commit::linear_codes::LigeroPCParams;
use ark_poly_commit::{LabeledPolynomial, PolynomialCommitment};

pub fn run(ctx: &mut Ctx) {
    crate::generic::c11_all(ctx);
    crate::props_marlin::c11(ctx);
    lincode_without_wellformedness(ctx);
}

/// Linear codes with the well-formedness check disabled: the column indices are then the only
/// transcript-derived part of a proof — polynomials small enough that every column is opened (t capped by the
/// codeword length) included, but never so small that two transcripts agree on all positions by chance.
fn lincode_without_wellformedness(ctx: &mut Ctx) {
    let n = ctx.n(12, 120);
    for i in 0..n {
        let id = format!("C11/lincode-nowf/{}", i);
        if !ctx.selected(&id) { continue; }
        let mut rng = rng_for(ctx.seed, "C11/lincode-nowf", i as u64);
        let sec = [128usize, 80, 32][range(&mut rng, 0, 2)];
        let rho = [2usize, 4][range(&mut rng, 0, 1)];
        let pp: LigeroPCParams<Fr, MTConfig, ColH> = LigeroPCParams::new(sec, rho, false, (), (), ());
        let multilinear = coin(&mut rng);
        // two sponges with different prior absorbs
        let mut sp_a = LogSponge::fresh();
        sp_a.absorb_seed(1000 + i as u64);
        let mut sp_b = LogSponge::fresh();
        sp_b.absorb_seed(2000 + i as u64);
        let (accepted_own, accepted_other, same_log, desc) = if multilinear {
            // ≥ 6 variables: the codeword has ≥ 16 columns, so two transcripts derive the same t ≥ 16 positions
            // only with probability ≤ 16^-16 (with 2 columns it is 1/4 and acceptance would be legitimate)
            let nv = range(&mut rng, 6, 8);
            let p = SparseMultilinearExtension::<Fr>::rand(nv, &mut rng);
            let lp = LabeledPolynomial::new("p".to_string(), p.clone(), None, None);
            let (ck, vk) = MlLigeroPC::trim(&pp, 0, 0, None).unwrap();
            let (c, st) = match guarded(|| MlLigeroPC::commit(&ck, [&lp], None)) { Ok(Ok(x)) => x, _ => continue };
            let z: Vec<Fr> = (0..nv).map(|_| Fr::rand(&mut rng)).collect();
            let v = p.evaluate(&z);
            let mut prover = sp_a.clone();
            let proof = match guarded(|| MlLigeroPC::open(&ck, [&lp], &c, &z, &mut prover, &st, None)) { Ok(Ok(x)) => x, _ => continue };
            let mut v_own = sp_a.clone();
            let own = matches!(guarded(|| MlLigeroPC::check(&vk, &c, &z, [v], &proof, &mut v_own, None)), Ok(Ok(true)));
            let mut v_other = sp_b.clone();
            let other = matches!(guarded(|| MlLigeroPC::check(&vk, &c, &z, [v], &proof, &mut v_other, None)), Ok(Ok(true)));
            (own, other, prover.log == v_own.log && prover.probe() == v_own.probe(), format!("ml-ligero nv={} sec={} rho_inv={} wf=off", nv, sec, rho))
        } else {
            let d = range(&mut rng, 63, 130);
            let p = UniPoly::rand(d, &mut rng);
            let lp = LabeledPolynomial::new("p".to_string(), p.clone(), None, None);
            let (ck, vk) = UniLigeroPC::trim(&pp, 0, 0, None).unwrap();
            let (c, st) = match guarded(|| UniLigeroPC::commit(&ck, [&lp], None)) { Ok(Ok(x)) => x, _ => continue };
            let z = Fr::rand(&mut rng);
            let v = p.evaluate(&z);
            let mut prover = sp_a.clone();
            let proof = match guarded(|| UniLigeroPC::open(&ck, [&lp], &c, &z, &mut prover, &st, None)) { Ok(Ok(x)) => x, _ => continue };
            let mut v_own = sp_a.clone();
            let own = matches!(guarded(|| UniLigeroPC::check(&vk, &c, &z, [v], &proof, &mut v_own, None)), Ok(Ok(true)));
            let mut v_other = sp_b.clone();
            let other = matches!(guarded(|| UniLigeroPC::check(&vk, &c, &z, [v], &proof, &mut v_other, None)), Ok(Ok(true)));
            (own, other, prover.log == v_own.log && prover.probe() == v_own.probe(), format!("uni-ligero deg={} sec={} rho_inv={} wf=off", d, sec, rho))
        };
        let rp = format!("# scheme: linear code, well-formedness check disabled\n# case: {}\n# seed: {}\n# {}\n# rerun: .build/cargo/debug/pcv-harness C11 --seed {} --only {}\n", id, ctx.seed, desc, ctx.seed, id);
        if !accepted_own {
            ctx.rep.expect_fail(&id, "lincode/history-rejected/open", "honest proof rejected on the prover's own transcript", rp.clone());
        }
        if accepted_own && !same_log {
            ctx.rep.expect_fail(&id, "lincode/sponge-diverged/open", "prover and verifier transcripts differ after an accepted opening", rp.clone());
        }
        if accepted_other {
            ctx.rep.expect_fail(&id, "lincode/accepted-on-other-transcript/pre-state", "proof accepted against a sponge with different prior absorbs (well-formedness check off)", rp.clone());
        }
        ctx.rep.count(if multilinear { "lincode-nowf/ml" } else { "lincode-nowf/uni" });
        ctx.rep.case(&format!("{} own={} other={}", desc, accepted_own, accepted_other), Some(format!("lincode-nowf/{}", desc)));
    }
}
