//! Linear-code PCS (univariate / multilinear Ligero, Brakedown): mirror structs for the crate-private
//! proof / commitment / state types, a transcript runner, and the model requests `lincode.*`.
//!
//! The Lean model is abstract in the hash functions, so model requests carry the *algebraic* part of
//! a transcript: vectors, opened columns, the sponge outputs recorded by `LogSponge`, the real
//! encoder's outputs on the vectors the verifier encodes, and one flag per Merkle path for "leaf
//! position equals the transcript position" and "`Path::verify` returned true" (both evaluated here
//! with the real library code).
use crate::common::*;
use crate::generic::{BrakedownPC, ColH, MTConfig, MlLigeroPC, SparseML, UniLigeroPC, UniPoly};
use crate::wire::{self, Req, Val};
use crate::Ctx;
use ark_bls12_381::Fr;
use ark_crypto_primitives::{
    crh::CRHScheme,
    merkle_tree::{MerkleTree, Path},
    sponge::CryptographicSponge,
};
use ark_ff::{One, Zero};
use ark_poly::{DenseUVPolynomial, Polynomial};
use ark_poly_commit::{
    linear_codes::{
        BrakedownPCParams, LigeroPCParams, LinCodePCProof, LinCodeParametersInfo, LinearEncode,
        MultilinearBrakedown, MultilinearLigero, UnivariateLigero,
    },
    verif_hooks, Error, LabeledCommitment, LabeledPolynomial, PolynomialCommitment,
};
use ark_serialize::{CanonicalDeserialize, CanonicalSerialize};

// ------------------------------------------------------------------------------------------------
// mirror structs (same field order as linear_codes/data_structures.rs and utils.rs::Matrix)
// ------------------------------------------------------------------------------------------------

#[derive(Clone, Debug, PartialEq, Eq, CanonicalSerialize, CanonicalDeserialize)]
pub struct MMetadata {
    pub n_rows: usize,
    pub n_cols: usize,
    pub n_ext_cols: usize,
}
#[derive(Clone, Debug, PartialEq, Eq, CanonicalSerialize, CanonicalDeserialize)]
pub struct MComm {
    pub metadata: MMetadata,
    pub root: Vec<u8>,
}
#[derive(Clone, Debug, PartialEq, Eq, CanonicalSerialize, CanonicalDeserialize)]
pub struct MMatrix {
    pub n: usize,
    pub m: usize,
    pub entries: Vec<Vec<Fr>>,
}
#[derive(Clone, Debug, CanonicalSerialize, CanonicalDeserialize)]
pub struct MState {
    pub mat: MMatrix,
    pub ext_mat: MMatrix,
    pub leaves: Vec<Vec<u8>>,
}
#[derive(Clone, CanonicalSerialize, CanonicalDeserialize)]
pub struct MProofSingle {
    pub paths: Vec<Path<MTConfig>>,
    pub v: Vec<Fr>,
    pub columns: Vec<Vec<Fr>>,
}
#[derive(Clone, CanonicalSerialize, CanonicalDeserialize)]
pub struct MProof {
    pub opening: MProofSingle,
    pub well_formedness: Option<Vec<Fr>>,
}

/// serialize → deserialize into a type with the same layout; a layout change fails loudly
pub fn conv<A: CanonicalSerialize, B: CanonicalDeserialize>(a: &A) -> B {
    let mut buf = vec![];
    a.serialize_uncompressed(&mut buf).expect("mirror: serialize");
    B::deserialize_uncompressed_unchecked(&buf[..]).expect("mirror: layout of a crate-private type changed")
}

pub type RealProof = Vec<LinCodePCProof<Fr, MTConfig>>;

// ------------------------------------------------------------------------------------------------
// the three instances
// ------------------------------------------------------------------------------------------------

pub trait Lc: 'static {
    type P: Polynomial<Fr> + Clone;
    type Params: Clone + LinCodeParametersInfo<MTConfig, ColH> + CanonicalSerialize;
    type L: LinearEncode<Fr, MTConfig, Self::P, ColH, LinCodePCParams = Self::Params>;
    type PC: PolynomialCommitment<
        Fr,
        Self::P,
        UniversalParams = Self::Params,
        CommitterKey = Self::Params,
        VerifierKey = Self::Params,
        Proof = RealProof,
        BatchProof = Vec<RealProof>,
        Error = Error,
    >;
    const NAME: &'static str;
    /// 0 = univariate point (one field element), 1 = multilinear point
    const KIND: usize;
    fn point(pv: &[Fr]) -> <Self::P as Polynomial<Fr>>::Point;
    /// polynomial from its coefficient vector / hypercube evaluations
    fn poly(vec: &[Fr]) -> Self::P;
    /// `size` = degree bound + 1 (univariate, unused) or number of variables (multilinear)
    fn params(rng: &mut Rng, size: usize, wf: bool, sec: usize, rho_inv: usize) -> Self::Params;
}

pub type Comm<S> = <<S as Lc>::PC as PolynomialCommitment<Fr, <S as Lc>::P>>::Commitment;
pub type State<S> = <<S as Lc>::PC as PolynomialCommitment<Fr, <S as Lc>::P>>::CommitmentState;

pub struct Uni;
impl Lc for Uni {
    type P = UniPoly;
    type Params = LigeroPCParams<Fr, MTConfig, ColH>;
    type L = UnivariateLigero<Fr, MTConfig, UniPoly, ColH>;
    type PC = UniLigeroPC;
    const NAME: &'static str = "lincode-uni";
    const KIND: usize = 0;
    fn point(pv: &[Fr]) -> Fr {
        pv[0]
    }
    fn poly(vec: &[Fr]) -> UniPoly {
        UniPoly::from_coefficients_vec(vec.to_vec())
    }
    fn params(_: &mut Rng, _: usize, wf: bool, sec: usize, rho_inv: usize) -> Self::Params {
        LigeroPCParams::new(sec, rho_inv, wf, (), (), ())
    }
}
fn sparse_from(vec: &[Fr]) -> SparseML {
    let nv = vec.len().trailing_zeros() as usize;
    let evs: Vec<(usize, Fr)> = vec.iter().cloned().enumerate().filter(|(_, v)| !v.is_zero()).collect();
    SparseML::from_evaluations(nv, &evs)
}
pub struct Ml;
impl Lc for Ml {
    type P = SparseML;
    type Params = LigeroPCParams<Fr, MTConfig, ColH>;
    type L = MultilinearLigero<Fr, MTConfig, SparseML, ColH>;
    type PC = MlLigeroPC;
    const NAME: &'static str = "lincode-ml";
    const KIND: usize = 1;
    fn point(pv: &[Fr]) -> Vec<Fr> {
        pv.to_vec()
    }
    fn poly(vec: &[Fr]) -> SparseML {
        sparse_from(vec)
    }
    fn params(_: &mut Rng, _: usize, wf: bool, sec: usize, rho_inv: usize) -> Self::Params {
        LigeroPCParams::new(sec, rho_inv, wf, (), (), ())
    }
}

/// `BrakedownPCParams` has crate-private fields; the mirror lets the harness lower `sec_param`
#[derive(Clone, CanonicalSerialize, CanonicalDeserialize)]
pub struct MSprsMat {
    pub n: usize,
    pub m: usize,
    pub d: usize,
    pub ind_ptr: Vec<usize>,
    pub col_ind: Vec<usize>,
    pub val: Vec<Fr>,
}
#[derive(Clone, CanonicalSerialize, CanonicalDeserialize)]
pub struct MBrakedownParams {
    pub sec_param: usize,
    pub alpha: (usize, usize),
    pub beta: (usize, usize),
    pub rho_inv: (usize, usize),
    pub base_len: usize,
    pub n: usize,
    pub m: usize,
    pub m_ext: usize,
    pub a_dims: Vec<(usize, usize, usize)>,
    pub b_dims: Vec<(usize, usize, usize)>,
    pub start: Vec<usize>,
    pub end: Vec<usize>,
    pub a_mats: Vec<MSprsMat>,
    pub b_mats: Vec<MSprsMat>,
    pub check_well_formedness: bool,
    pub leaf_hash_param: (),
    pub two_to_one_hash_param: (),
    pub col_hash_params: (),
}
pub struct Bd;
impl Lc for Bd {
    type P = SparseML;
    type Params = BrakedownPCParams<Fr, MTConfig, ColH>;
    type L = MultilinearBrakedown<Fr, MTConfig, SparseML, ColH>;
    type PC = BrakedownPC;
    const NAME: &'static str = "lincode-brakedown";
    const KIND: usize = 1;
    fn point(pv: &[Fr]) -> Vec<Fr> {
        pv.to_vec()
    }
    fn poly(vec: &[Fr]) -> SparseML {
        sparse_from(vec)
    }
    fn params(rng: &mut Rng, nv: usize, wf: bool, sec: usize, _: usize) -> Self::Params {
        let pp = BrakedownPCParams::<Fr, MTConfig, ColH>::default(rng, 1 << nv, wf, (), (), ());
        if sec == 128 {
            pp
        } else {
            let mut m: MBrakedownParams = conv(&pp);
            m.sec_param = sec;
            conv(&m)
        }
    }
}

// ------------------------------------------------------------------------------------------------
// running the real code
// ------------------------------------------------------------------------------------------------

#[derive(Clone, Debug, PartialEq, Eq)]
pub enum Out {
    Accept,
    /// `Ok(false)`
    Reject,
    /// `Err(kind)` or `abort:…`
    Refuse(String),
}
impl Out {
    pub fn accepted(&self) -> bool {
        *self == Out::Accept
    }
    pub fn to_impl(&self) -> ImplOutcome {
        match self {
            Out::Accept => ImplOutcome::Ok(vec![("b".into(), Expect::Bool(true))]),
            Out::Reject => ImplOutcome::Ok(vec![("b".into(), Expect::Bool(false))]),
            Out::Refuse(k) => ImplOutcome::Refuse(k.clone()),
        }
    }
}

pub struct Run<S: Lc> {
    pub pp: S::Params,
    pub vecs: Vec<Vec<Fr>>,
    pub polys: Vec<LabeledPolynomial<Fr, S::P>>,
    pub comms: Vec<MComm>,
    pub states: Vec<MState>,
    pub real_states: Vec<State<S>>,
    pub point: Vec<Fr>,
    pub values: Vec<Fr>,
    pub proof: Vec<MProof>,
    /// sponge before `open` / `check`
    pub pre: LogSponge,
    /// sponge after `open`
    pub open_log: LogSponge,
}

pub fn label(i: usize) -> String {
    format!("p{}", i)
}

pub fn real_comms<S: Lc>(cs: &[MComm]) -> Vec<LabeledCommitment<Comm<S>>> {
    cs.iter()
        .enumerate()
        .map(|(i, c)| LabeledCommitment::new(label(i), conv::<MComm, Comm<S>>(c), None))
        .collect()
}

/// a sponge whose state depends on the case (so that transcripts differ between cases)
pub fn seeded_sponge(rng: &mut Rng) -> LogSponge {
    use ark_ff::UniformRand;
    let mut s = LogSponge::fresh();
    if coin(rng) {
        s.absorb(&Fr::rand(rng));
        s.log.clear();
    }
    s
}

/// commit + open with the real library code
pub fn honest<S: Lc>(pp: &S::Params, vecs: &[Vec<Fr>], point: &[Fr], pre: &LogSponge) -> Result<Run<S>, String> {
    let polys: Vec<LabeledPolynomial<Fr, S::P>> = vecs
        .iter()
        .enumerate()
        .map(|(i, v)| LabeledPolynomial::new(label(i), S::poly(v), None, None))
        .collect();
    let (comms, states) = match guarded(|| S::PC::commit(pp, polys.iter(), None)) {
        Ok(Ok(x)) => x,
        Ok(Err(e)) => return Err(format!("commit: {}", err_kind(&e))),
        Err(e) => return Err(format!("commit: {}", e)),
    };
    let pt = S::point(point);
    let values: Vec<Fr> = polys.iter().map(|p| p.polynomial().evaluate(&pt)).collect();
    let mut sp = pre.clone();
    let proof = match guarded(|| S::PC::open(pp, polys.iter(), comms.iter(), &pt, &mut sp, states.iter(), None)) {
        Ok(Ok(x)) => x,
        Ok(Err(e)) => return Err(format!("open: {}", err_kind(&e))),
        Err(e) => return Err(format!("open: {}", e)),
    };
    Ok(Run {
        pp: pp.clone(),
        vecs: vecs.to_vec(),
        polys,
        comms: comms.iter().map(|c| conv::<Comm<S>, MComm>(c.commitment())).collect(),
        states: states.iter().map(|s| conv::<State<S>, MState>(s)).collect(),
        real_states: states,
        point: point.to_vec(),
        values,
        proof: proof.iter().map(|p| conv::<LinCodePCProof<Fr, MTConfig>, MProof>(p)).collect(),
        pre: pre.clone(),
        open_log: sp,
    })
}

/// the real `check` on mirror data; returns the outcome and the verifier's sponge log
pub fn check<S: Lc>(pp: &S::Params, comms: &[MComm], point: &[Fr], values: &[Fr], proof: &[MProof], pre: &LogSponge) -> (Out, LogSponge) {
    let cs = real_comms::<S>(comms);
    let pr: RealProof = proof.iter().map(|p| conv::<MProof, LinCodePCProof<Fr, MTConfig>>(p)).collect();
    let pt = S::point(point);
    let mut sp = pre.clone();
    let r = guarded(|| S::PC::check(pp, cs.iter(), &pt, values.iter().cloned(), &pr, &mut sp, None));
    let out = match r {
        Ok(Ok(true)) => Out::Accept,
        Ok(Ok(false)) => Out::Reject,
        Ok(Err(e)) => Out::Refuse(err_kind(&e)),
        Err(e) => Out::Refuse(e),
    };
    (out, sp)
}

pub fn col_hash(col: &[Fr]) -> Vec<u8> {
    <ColH as CRHScheme>::evaluate(&(), col.to_vec()).unwrap()
}

pub fn encode<S: Lc>(pp: &S::Params, v: &[Fr]) -> Option<Vec<Fr>> {
    match guarded(|| S::L::encode(v, pp)) {
        Ok(Ok(w)) => Some(w),
        _ => None,
    }
}

pub fn tensor<S: Lc>(point: &[Fr], n_cols: usize, n_rows: usize) -> Result<(Vec<Fr>, Vec<Fr>), String> {
    let pt = S::point(point);
    guarded(|| S::L::tensor(&pt, n_cols, n_rows))
}

pub fn calc_t<S: Lc>(pp: &S::Params, n_ext: usize) -> Option<usize> {
    verif_hooks::calculate_t::<Fr>(pp.sec_param(), pp.distance(), n_ext).ok()
}

pub fn inner(a: &[Fr], b: &[Fr]) -> Fr {
    a.iter().zip(b).map(|(x, y)| *x * *y).sum()
}

pub fn fold_index(bytes: &[u8], n: usize) -> usize {
    bytes.iter().fold(0usize, |acc, &x| (acc << 8) + x as usize) % n
}

/// The sponge outputs per polynomial, read off a recorded log of `open` / `check`:
/// `r` (one `squeeze_field_elements(n_rows)` when well-formedness is on) and the byte strings of
/// `get_indices_from_sponge` (`t` squeezes). Stops where the log stops.
pub struct Oracle {
    pub r: Vec<Fr>,
    pub idx_bytes: Vec<Vec<u8>>,
}
pub fn oracles_from_log(log: &LogSponge, wf: bool, ts: &[Option<usize>]) -> Vec<Oracle> {
    use std::str::FromStr;
    let mut out = vec![];
    let mut it = log.log.iter().peekable();
    for t in ts {
        let mut r = vec![];
        if wf {
            // next field squeeze
            let mut found = false;
            while let Some(e) = it.next() {
                if let Event::SqueezeFe(_, outs) = e {
                    r = outs.iter().map(|o| Fr::from_str(o).unwrap()).collect();
                    found = true;
                    break;
                }
            }
            if !found {
                break;
            }
        }
        let t = match t {
            Some(t) => *t,
            None => break,
        };
        let mut idx = vec![];
        while idx.len() < t {
            match it.next() {
                Some(Event::SqueezeBytes(_, b)) => idx.push(b.clone()),
                Some(_) => {}
                None => break,
            }
        }
        let complete = idx.len() == t;
        if !wf && idx.is_empty() && t > 0 {
            break;
        }
        out.push(Oracle { r, idx_bytes: idx });
        if !complete {
            break;
        }
    }
    out
}

pub fn bytess(bs: &[Vec<u8>]) -> Val {
    Val::L(bs.iter().map(|b| Val::L(b.iter().map(|x| wire::nat(*x as usize)).collect())).collect())
}
pub fn opt_fes(v: &Option<Vec<Fr>>) -> Val {
    wire::opt(v.as_ref().map(|x| wire::fes(x)))
}

/// `lincode.check_alg` for one call of `check` (any number of commitments / values / proofs)
pub fn check_req<S: Lc>(pp: &S::Params, comms: &[MComm], point: &[Fr], values: &[Fr], proof: &[MProof], log: &LogSponge) -> Req {
    let wf = pp.check_well_formedness();
    let ts: Vec<Option<usize>> = comms.iter().map(|c| calc_t::<S>(pp, c.metadata.n_ext_cols)).collect();
    let oracles = oracles_from_log(log, wf, &ts);
    let mut req = Req::new("lincode.check_alg")
        .arg("kind", wire::nat(S::KIND))
        .arg("point", wire::fes(point))
        .arg("wf", wire::boolean(wf))
        .arg("ncomm", wire::nat(comms.len()))
        .arg("nval", wire::nat(values.len()))
        .arg("nproof", wire::nat(proof.len()));
    for (i, c) in comms.iter().enumerate() {
        req = req
            .arg(&format!("nrows_{}", i), wire::nat(c.metadata.n_rows))
            .arg(&format!("ncols_{}", i), wire::nat(c.metadata.n_cols))
            .arg(&format!("next_{}", i), wire::nat(c.metadata.n_ext_cols));
    }
    for (i, v) in values.iter().enumerate() {
        req = req.arg(&format!("value_{}", i), wire::fe(v));
    }
    for (i, o) in oracles.iter().enumerate() {
        req = req.arg(&format!("r_{}", i), wire::fes(&o.r)).arg(&format!("idxbytes_{}", i), bytess(&o.idx_bytes));
    }
    for (i, p) in proof.iter().enumerate() {
        let indices: Vec<usize> = match (oracles.get(i), comms.get(i)) {
            (Some(o), Some(c)) if c.metadata.n_ext_cols > 0 => o.idx_bytes.iter().map(|b| fold_index(b, c.metadata.n_ext_cols)).collect(),
            _ => vec![],
        };
        let mut leafok = vec![];
        let mut pathok = vec![];
        for (j, path) in p.opening.paths.iter().enumerate() {
            leafok.push(indices.get(j).map(|q| path.leaf_index == *q).unwrap_or(true) as usize);
            let ok = match (p.opening.columns.get(j), comms.get(i)) {
                (Some(col), Some(c)) => path.verify(&(), &(), &c.root, col_hash(col)).unwrap_or(false),
                _ => true,
            };
            pathok.push(ok as usize);
        }
        req = req
            .arg(&format!("v_{}", i), wire::fes(&p.opening.v))
            .arg(&format!("pwf_{}", i), opt_fes(&p.well_formedness))
            .arg(&format!("cols_{}", i), wire::fess(&p.opening.columns))
            .arg(&format!("leafok_{}", i), wire::nats(&leafok))
            .arg(&format!("pathok_{}", i), wire::nats(&pathok))
            .arg(&format!("ev_{}", i), opt_fes(&encode::<S>(pp, &p.opening.v)));
        if let Some(w) = &p.well_formedness {
            req = req.arg(&format!("ewf_{}", i), opt_fes(&encode::<S>(pp, w)));
        }
    }
    req
}

/// queue the model's decision for one `check` call
pub fn ask_check<S: Lc>(ctx: &mut Ctx, id: &str, pp: &S::Params, comms: &[MComm], point: &[Fr], values: &[Fr], proof: &[MProof], log: &LogSponge, out: &Out) {
    let req = check_req::<S>(pp, comms, point, values, proof, log);
    ctx.ses.ask(id, req, out.to_impl());
}

/// `lincode.open_alg` for polynomial `i` of an honest run: the model's `v`, `wf`, columns, positions
pub fn ask_open<S: Lc>(ctx: &mut Ctx, id: &str, run: &Run<S>) {
    let wf = run.pp.check_well_formedness();
    let ts: Vec<Option<usize>> = run.comms.iter().map(|c| calc_t::<S>(&run.pp, c.metadata.n_ext_cols)).collect();
    let oracles = oracles_from_log(&run.open_log, wf, &ts);
    for (i, (c, st)) in run.comms.iter().zip(&run.states).enumerate() {
        let o = match oracles.get(i) {
            Some(o) => o,
            None => {
                ctx.rep.model_disagreements.push(Failure {
                    case_id: id.to_string(),
                    signature: "lincode/open-log-too-short".into(),
                    what: format!("the prover's sponge log has no squeezes for polynomial {}", i),
                    replay: format!("# case {}\n# log shape {}\n", id, run.open_log.shape()),
                });
                continue;
            }
        };
        let p = &run.proof[i];
        let indices: Vec<usize> = o.idx_bytes.iter().map(|b| fold_index(b, c.metadata.n_ext_cols)).collect();
        let req = Req::new("lincode.open_alg")
            .arg("kind", wire::nat(S::KIND))
            .arg("point", wire::fes(&run.point))
            .arg("wf", wire::boolean(wf))
            .arg("nrows", wire::nat(c.metadata.n_rows))
            .arg("ncols", wire::nat(c.metadata.n_cols))
            .arg("next", wire::nat(c.metadata.n_ext_cols))
            .arg("mat", wire::fess(&st.mat.entries))
            .arg("ext", wire::fess(&st.ext_mat.entries))
            .arg("r", wire::fes(&o.r))
            .arg("idxbytes", bytess(&o.idx_bytes));
        let exp = vec![
            ("v".to_string(), Expect::Fes(p.opening.v.clone())),
            ("wf".to_string(), Expect::Raw(opt_fes(&p.well_formedness))),
            ("columns".to_string(), Expect::Raw(wire::fess(&p.opening.columns))),
            ("indices".to_string(), Expect::Nats(indices)),
            ("leafidx".to_string(), Expect::Nats(p.opening.paths.iter().map(|q| q.leaf_index).collect())),
            ("depth".to_string(), Expect::Nats(p.opening.paths.iter().map(|q| q.auth_path.len() + 1).collect())),
        ];
        ctx.ses.ask(&format!("{}/open{}", id, i), req, ImplOutcome::Ok(exp));
    }
}

/// `lincode.tensor` against `L::tensor`
pub fn ask_tensor<S: Lc>(ctx: &mut Ctx, id: &str, point: &[Fr], n_cols: usize, n_rows: usize) {
    let req = Req::new("lincode.tensor")
        .arg("kind", wire::nat(S::KIND))
        .arg("point", wire::fes(point))
        .arg("ncols", wire::nat(n_cols))
        .arg("nrows", wire::nat(n_rows));
    let out = match tensor::<S>(point, n_cols, n_rows) {
        Ok((a, b)) => ImplOutcome::Ok(vec![("a".into(), Expect::Fes(a)), ("b".into(), Expect::Fes(b))]),
        Err(e) => ImplOutcome::Refuse(e),
    };
    ctx.ses.ask(&format!("{}/tensor", id), req, out);
}

// ------------------------------------------------------------------------------------------------
// independent recomputations
// ------------------------------------------------------------------------------------------------

/// Merkle root over column hashes, written from the description of the tree (not the library's tree
/// code): leaves padded to a power of two with the empty byte string; the layer above the leaves
/// hashes the serialized (length-prefixed) leaf digests, the inner layers the raw 32-byte digests.
pub fn own_merkle_root(leaves: &[Vec<u8>]) -> Vec<u8> {
    use sha2::{Digest, Sha256};
    let mut n = 1usize;
    while n < leaves.len() {
        n *= 2;
    }
    let mut padded: Vec<Vec<u8>> = leaves.to_vec();
    padded.resize(n, vec![]);
    let ser = |d: &Vec<u8>| {
        let mut b = (d.len() as u64).to_le_bytes().to_vec();
        b.extend_from_slice(d);
        b
    };
    let mut layer: Vec<Vec<u8>> = padded
        .chunks(2)
        .map(|p| {
            let mut h = Sha256::new();
            h.update(ser(&p[0]));
            h.update(ser(&p[1]));
            h.finalize().to_vec()
        })
        .collect();
    while layer.len() > 1 {
        layer = layer
            .chunks(2)
            .map(|p| {
                let mut h = Sha256::new();
                h.update(&p[0]);
                h.update(&p[1]);
                h.finalize().to_vec()
            })
            .collect();
    }
    layer.pop().unwrap_or_default()
}

/// column hash written with blake2 directly
pub fn own_col_hash(col: &[Fr]) -> Vec<u8> {
    use blake2::{Blake2s256, Digest};
    let mut buf = (col.len() as u64).to_le_bytes().to_vec();
    for x in col {
        x.serialize_compressed(&mut buf).unwrap();
    }
    Blake2s256::digest(&buf).to_vec()
}

/// the encoded matrix recomputed from the coefficient vector: row-major `n × m`, zero padded,
/// rows encoded with the public `encode`
pub fn own_ext_columns<S: Lc>(pp: &S::Params, vec: &[Fr]) -> Option<(usize, usize, Vec<Vec<Fr>>)> {
    let mut cs = vec.to_vec();
    if cs.is_empty() {
        cs.push(Fr::zero());
    }
    let (n, m) = pp.compute_dimensions(cs.len());
    cs.resize(n * m, Fr::zero());
    let mut rows = vec![];
    for r in 0..n {
        rows.push(encode::<S>(pp, &cs[r * m..(r + 1) * m])?);
    }
    let k = rows[0].len();
    let cols = (0..k).map(|j| rows.iter().map(|r| r[j]).collect()).collect();
    Some((n, m, cols))
}

/// the library's Merkle tree over the leaves of a state (to produce valid paths for forgeries)
pub fn tree_of(leaves: &[Vec<u8>]) -> MerkleTree<MTConfig> {
    let mut l = leaves.to_vec();
    let n = l.len().next_power_of_two();
    l.resize(n, vec![]);
    MerkleTree::<MTConfig>::new(&(), &(), l).unwrap()
}

/// the verifier's transcript up to the column positions, re-run on a sponge clone for a (possibly
/// forged) pair (`v`, `wf`): returns `(r, indices)`
pub fn transcript<S: Lc>(pp: &S::Params, c: &MComm, point: &[Fr], v: &[Fr], wf: &Option<Vec<Fr>>, pre: &LogSponge) -> Option<(Vec<Fr>, Vec<usize>, LogSponge)> {
    let mut sp = pre.clone();
    let mut buf = vec![];
    c.root.serialize_compressed(&mut buf).ok()?;
    sp.absorb(&buf);
    let mut r = vec![];
    if pp.check_well_formedness() {
        r = sp.squeeze_field_elements::<Fr>(c.metadata.n_rows);
        sp.absorb(wf.as_ref()?);
    }
    sp.absorb(&point.to_vec());
    sp.absorb(&v.to_vec());
    let t = calc_t::<S>(pp, c.metadata.n_ext_cols)?;
    let idx = verif_hooks::get_indices_from_sponge(c.metadata.n_ext_cols, t, &mut sp).ok()?;
    Some((r, idx, sp))
}

pub fn one() -> Fr {
    Fr::one()
}

pub fn describe<S: Lc>(run: &Run<S>) -> String {
    format!(
        "{} wf={} sec={} polys={} shapes={:?} t={:?}",
        S::NAME,
        run.pp.check_well_formedness(),
        run.pp.sec_param(),
        run.vecs.len(),
        run.comms.iter().map(|c| (c.metadata.n_rows, c.metadata.n_cols, c.metadata.n_ext_cols)).collect::<Vec<_>>(),
        run.comms.iter().map(|c| calc_t::<S>(&run.pp, c.metadata.n_ext_cols)).collect::<Vec<_>>()
    )
}


// ------------------------------------------------------------------------------------------------
// C11: the recorded sponge log in the model's event vocabulary, `lincode.transcript` requests
// ------------------------------------------------------------------------------------------------

fn tev(tag: usize, rest: Vec<Val>) -> Val {
    let mut v = vec![wire::nat(tag)];
    v.extend(rest);
    Val::L(v)
}
pub fn bytes_val(b: &[u8]) -> Val {
    Val::L(b.iter().map(|x| wire::nat(*x as usize)).collect())
}

/// One absorbed byte string, decoded by STRUCTURE only: a concatenation of canonical field elements
/// `[4,[x..]]`; a length-prefixed byte string (a serialized digest) `[5,bytes]`; anything else (the
/// index bytes) `[6,bytes]`.
pub fn decode_absorb(b: &[u8]) -> Val {
    let f = Fr::zero().compressed_size();
    if b.len() % f == 0 {
        let xs: Option<Vec<Fr>> = b.chunks(f).map(|c| Fr::deserialize_compressed(c).ok()).collect();
        if let Some(xs) = xs {
            return tev(4, vec![wire::fes(&xs)]);
        }
    }
    if b.len() >= 8 && u64::from_le_bytes(b[..8].try_into().unwrap()) as usize == b.len() - 8 {
        return tev(5, vec![bytes_val(&b[8..])]);
    }
    tev(6, vec![bytes_val(b)])
}

pub fn decode_log(log: &[Event]) -> Val {
    Val::L(
        log.iter()
            .map(|e| match e {
                Event::Absorb(b) => decode_absorb(b),
                Event::SqueezeFe(sizes, _) if sizes.iter().all(|s| s.is_none()) => tev(10, vec![wire::nat(sizes.len())]),
                Event::SqueezeFe(sizes, _) => tev(12, vec![wire::nat(sizes.len())]),
                Event::SqueezeBytes(n, _) => tev(11, vec![wire::nat(*n)]),
                Event::SqueezeBits(n) => tev(13, vec![wire::nat(*n)]),
            })
            .collect(),
    )
}

/// the recorded answers of the squeezes, aligned by squeeze number: (`sqf`, `sqb`)
pub fn squeezed(log: &LogSponge) -> (Val, Val) {
    use std::str::FromStr;
    let mut f = vec![];
    let mut b = vec![];
    for e in &log.log {
        match e {
            Event::SqueezeFe(_, outs) => {
                f.push(wire::fes(&outs.iter().map(|o| Fr::from_str(o).unwrap()).collect::<Vec<_>>()));
                b.push(Val::L(vec![]));
            }
            Event::SqueezeBytes(_, bytes) => {
                f.push(Val::L(vec![]));
                b.push(bytes_val(bytes));
            }
            Event::SqueezeBits(_) => {
                f.push(Val::L(vec![]));
                b.push(Val::L(vec![]));
            }
            Event::Absorb(_) => {}
        }
    }
    (Val::L(f), Val::L(b))
}

/// the arguments every `lincode.transcript` request carries
pub fn transcript_req<S: Lc>(side: usize, pp: &S::Params, comms: &[MComm], log: &LogSponge) -> Req {
    let (sqf, sqb) = squeezed(log);
    let (d0, d1) = pp.distance();
    let mut hints: Vec<Val> = vec![];
    for c in comms {
        if let Some(t) = calc_t::<S>(pp, c.metadata.n_ext_cols) {
            hints.push(wire::nats(&[c.metadata.n_ext_cols, t]));
        }
    }
    Req::new("lincode.transcript")
        .arg("side", wire::nat(side))
        .arg("kind", wire::nat(S::KIND))
        .arg("wf", wire::boolean(pp.check_well_formedness()))
        .arg("lam", wire::nat(pp.sec_param()))
        .arg("d0", wire::nat(d0))
        .arg("d1", wire::nat(d1))
        .arg("hints", Val::L(hints))
        .arg("sqf", sqf)
        .arg("sqb", sqb)
}

pub fn comm_args(mut req: Req, comms: &[MComm], labels: bool) -> Req {
    for (i, c) in comms.iter().enumerate() {
        if labels {
            req = req.arg(&format!("label_{}", i), wire::label(&label(i)));
        }
        req = req
            .arg(&format!("nrows_{}", i), wire::nat(c.metadata.n_rows))
            .arg(&format!("ncols_{}", i), wire::nat(c.metadata.n_cols))
            .arg(&format!("next_{}", i), wire::nat(c.metadata.n_ext_cols))
            .arg(&format!("root_{}", i), bytes_val(&c.root));
    }
    req
}

pub fn state_args(mut req: Req, states: &[MState]) -> Req {
    for (i, st) in states.iter().enumerate() {
        req = req.arg(&format!("mat_{}", i), wire::fess(&st.mat.entries)).arg(&format!("ext_{}", i), wire::fess(&st.ext_mat.entries));
    }
    req
}

/// proof `i` of a request, its Merkle paths verified (with the real library code) against `root`
pub fn proof_args<S: Lc>(mut req: Req, pp: &S::Params, i: usize, p: &MProof, root: &Vec<u8>, with_root: bool) -> Req {
    let mut pathok = vec![];
    for (j, path) in p.opening.paths.iter().enumerate() {
        let ok = match p.opening.columns.get(j) {
            Some(col) => path.verify(&(), &(), root, col_hash(col)).unwrap_or(false),
            None => true,
        };
        pathok.push(ok as usize);
    }
    req = req
        .arg(&format!("v_{}", i), wire::fes(&p.opening.v))
        .arg(&format!("pwf_{}", i), opt_fes(&p.well_formedness))
        .arg(&format!("cols_{}", i), wire::fess(&p.opening.columns))
        .arg(&format!("leafidx_{}", i), wire::nats(&p.opening.paths.iter().map(|q| q.leaf_index).collect::<Vec<_>>()))
        .arg(&format!("pathok_{}", i), wire::nats(&pathok))
        .arg(&format!("ev_{}", i), opt_fes(&encode::<S>(pp, &p.opening.v)));
    if let Some(w) = &p.well_formedness {
        req = req.arg(&format!("ewf_{}", i), opt_fes(&encode::<S>(pp, w)));
    }
    if with_root {
        req = req.arg(&format!("proot_{}", i), bytes_val(root));
    }
    req
}

/// queue a `lincode.transcript` request whose reply must carry the recorded log
pub fn ask_transcript(ctx: &mut Ctx, id: &str, req: Req, log: &LogSponge, mut extra: Vec<(String, Expect)>, refuse: Option<String>) {
    let out = match refuse {
        Some(k) => ImplOutcome::Refuse(k),
        None => {
            extra.push(("log".into(), Expect::Raw(decode_log(&log.log))));
            ImplOutcome::Ok(extra)
        }
    };
    ctx.ses.ask(id, req, out);
}
