//! Line protocol values shared with the Lean driver (DESIGN Appendix C).
use ark_bls12_381::Fr;
use ark_ff::{BigInteger, PrimeField};
use std::fmt;
use std::str::FromStr;

#[derive(Clone, Debug, PartialEq, Eq)]
pub enum Val {
    N(String),
    L(Vec<Val>),
    None,
    Some(Box<Val>),
}

impl fmt::Display for Val {
    fn fmt(&self, f: &mut fmt::Formatter<'_>) -> fmt::Result {
        match self {
            Val::N(s) => write!(f, "{}", s),
            Val::L(xs) => {
                write!(f, "[")?;
                for (i, x) in xs.iter().enumerate() {
                    if i > 0 {
                        write!(f, ",")?;
                    }
                    write!(f, "{}", x)?;
                }
                write!(f, "]")
            }
            Val::None => write!(f, "none"),
            Val::Some(v) => write!(f, "some({})", v),
        }
    }
}

impl Val {
    pub fn parse(s: &str) -> Option<Val> {
        let b = s.as_bytes();
        let (v, rest) = Self::parse_at(b, 0)?;
        if rest == b.len() {
            Some(v)
        } else {
            None
        }
    }
    fn parse_at(b: &[u8], i: usize) -> Option<(Val, usize)> {
        if b[i..].starts_with(b"none") {
            return Some((Val::None, i + 4));
        }
        if b[i..].starts_with(b"some(") {
            let (v, j) = Self::parse_at(b, i + 5)?;
            if b.get(j) == Some(&b')') {
                return Some((Val::Some(Box::new(v)), j + 1));
            }
            return None;
        }
        if b.get(i) == Some(&b'[') {
            let mut xs = vec![];
            let mut j = i + 1;
            if b.get(j) == Some(&b']') {
                return Some((Val::L(xs), j + 1));
            }
            loop {
                let (v, k) = Self::parse_at(b, j)?;
                xs.push(v);
                match b.get(k) {
                    Some(b',') => j = k + 1,
                    Some(b']') => return Some((Val::L(xs), k + 1)),
                    _ => return None,
                }
            }
        }
        let mut j = i;
        while j < b.len() && b[j].is_ascii_digit() {
            j += 1;
        }
        if j == i {
            return None;
        }
        Some((Val::N(String::from_utf8_lossy(&b[i..j]).to_string()), j))
    }
    pub fn as_fr(&self) -> Option<Fr> {
        match self {
            Val::N(s) => Fr::from_str(s).ok(),
            _ => None,
        }
    }
    pub fn as_usize(&self) -> Option<usize> {
        match self {
            Val::N(s) => s.parse().ok(),
            _ => None,
        }
    }
    pub fn as_list(&self) -> Option<&Vec<Val>> {
        match self {
            Val::L(xs) => Some(xs),
            _ => None,
        }
    }
    pub fn as_frs(&self) -> Option<Vec<Fr>> {
        self.as_list()?.iter().map(|v| v.as_fr()).collect()
    }
    pub fn as_opt(&self) -> Option<Option<&Val>> {
        match self {
            Val::None => Some(None),
            Val::Some(v) => Some(Some(v)),
            _ => None,
        }
    }
}

pub fn fe<F: PrimeField>(x: &F) -> Val {
    Val::N(x.into_bigint().to_string())
}
pub fn fes<F: PrimeField>(xs: &[F]) -> Val {
    Val::L(xs.iter().map(fe).collect())
}
pub fn fess<F: PrimeField>(xs: &[Vec<F>]) -> Val {
    Val::L(xs.iter().map(|x| fes(x)).collect())
}
pub fn nat(n: usize) -> Val {
    Val::N(n.to_string())
}
pub fn nats(ns: &[usize]) -> Val {
    Val::L(ns.iter().map(|n| nat(*n)).collect())
}
pub fn boolean(b: bool) -> Val {
    nat(b as usize)
}
pub fn opt(v: Option<Val>) -> Val {
    match v {
        None => Val::None,
        Some(x) => Val::Some(Box::new(x)),
    }
}
pub fn opt_nat(v: Option<usize>) -> Val {
    opt(v.map(nat))
}
pub fn opt_fe<F: PrimeField>(v: &Option<F>) -> Val {
    opt(v.as_ref().map(fe))
}
pub fn label(s: &str) -> Val {
    Val::L(s.bytes().map(|b| nat(b as usize)).collect())
}

/// Big-endian bit length helper for field sizes.
pub fn modulus_decimal<F: PrimeField>() -> String {
    let m = F::MODULUS;
    let bytes = m.to_bytes_be();
    // decimal conversion through the Display of BigInt
    let _ = bytes;
    m.to_string()
}

/// A request line under construction.
#[derive(Clone, Debug)]
pub struct Req {
    pub op: String,
    pub args: Vec<(String, Val)>,
}
impl Req {
    pub fn new(op: &str) -> Self {
        Req {
            op: op.to_string(),
            args: vec![],
        }
    }
    pub fn arg(mut self, k: &str, v: Val) -> Self {
        self.args.push((k.to_string(), v));
        self
    }
    pub fn line(&self) -> String {
        let mut s = self.op.clone();
        for (k, v) in &self.args {
            s.push(' ');
            s.push_str(k);
            s.push('=');
            s.push_str(&v.to_string());
        }
        s
    }
}

/// A parsed reply: `ok k=v …`, `err <kind>`, or something malformed.
#[derive(Clone, Debug)]
pub enum Reply {
    Ok(Vec<(String, Val)>),
    Err(String),
    Bad(String),
}
impl Reply {
    pub fn parse(line: &str) -> Reply {
        let mut it = line.trim().split(' ').filter(|s| !s.is_empty());
        match it.next() {
            Some("ok") => {
                let mut kv = vec![];
                for tok in it {
                    let mut sp = tok.splitn(2, '=');
                    let k = sp.next().unwrap_or("");
                    match sp.next().and_then(Val::parse) {
                        Some(v) => kv.push((k.to_string(), v)),
                        None => return Reply::Bad(line.to_string()),
                    }
                }
                Reply::Ok(kv)
            }
            Some("err") => Reply::Err(it.next().unwrap_or("").to_string()),
            _ => Reply::Bad(line.to_string()),
        }
    }
    pub fn get(&self, k: &str) -> Option<&Val> {
        match self {
            Reply::Ok(kv) => kv.iter().find(|(kk, _)| kk == k).map(|(_, v)| v),
            _ => None,
        }
    }
}
