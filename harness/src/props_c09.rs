//! Property C09 — correspondence / expectation run (see DESIGN.md §5, C09).
use crate::Ctx;

pub fn run(ctx: &mut Ctx) {
    let _ = ctx;
}
