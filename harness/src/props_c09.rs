//! Property C09 — setup and trim produce well-formed, mutually consistent keys.
use crate::common::*;
use crate::generic::{IpaPC, HyraxScheme};
use crate::kzg::{Kzg, Trap};
use crate::marlin::{self, Case, PC as MarlinPC};
use crate::wire;
use crate::Ctx;
use ark_bls12_381::{Bls12_381, Fr, G1Affine};
use ark_ec::{pairing::Pairing, AffineRepr, CurveGroup};
use ark_ff::{One, UniformRand, Zero};
use ark_poly::{univariate::DensePolynomial, DenseUVPolynomial};
use ark_poly_commit::{LabeledPolynomial, PCCommitterKey, PCVerifierKey, PolynomialCommitment};
use std::ops::Mul;

pub fn run(ctx: &mut Ctx) {
    kzg_real_setup(ctx);
    marlin_trim(ctx);
    marlin_prepared_keys(ctx);
    transparent_generators(ctx);
    crate::generic::c09_reloaded_all(ctx);
    ctx.flush_model("C09");
}

/// real `setup`: recover the trapdoor by replaying the RNG, verify every element against it and
/// through pairings
fn kzg_real_setup(ctx: &mut Ctx) {
    let n = ctx.n(12, 64);
    for i in 0..n {
        let id = format!("C09/kzg10-setup/{}", i);
        if !ctx.selected(&id) { continue; }
        let mut rng = rng_for(ctx.seed, "C09/kzg10-setup", i as u64);
        let max_degree = if ctx.thorough { 1 + i % 64 } else { range(&mut rng, 1, 24) };
        let g2 = coin(&mut rng);
        let replay = rng.clone();
        let pp = match guarded(|| Kzg::setup(max_degree, g2, &mut rng)) {
            Ok(Ok(p)) => p,
            _ => { ctx.rep.expect_fail(&id, "kzg10/setup-refused", "setup refused an in-domain request", format!("# kzg10 setup({})\n", max_degree)); continue; }
        };
        // the trapdoor is among the first field draws
        let mut r = replay.clone();
        let cands: Vec<Fr> = (0..4).map(|_| Fr::rand(&mut r)).collect();
        let beta = cands.iter().cloned().find(|b| pp.powers_of_g.len() >= 2 && pp.powers_of_g[0].mul(*b).into_affine() == pp.powers_of_g[1]);
        let mut bad: Vec<String> = vec![];
        if pp.powers_of_g.len() != max_degree + 1 { bad.push(format!("powers_of_g has {} elements for max_degree {}", pp.powers_of_g.len(), max_degree)); }
        if pp.powers_of_gamma_g.len() != max_degree + 2 { bad.push(format!("powers_of_gamma_g has {} elements", pp.powers_of_gamma_g.len())); }
        match beta {
            None => bad.push("no early RNG draw is the trapdoor of powers_of_g".into()),
            Some(b) => {
                for k in 0..max_degree {
                    if pp.powers_of_g[k].mul(b).into_affine() != pp.powers_of_g[k + 1] { bad.push(format!("powers_of_g[{}] != beta*powers_of_g[{}]", k + 1, k)); break; }
                }
                for k in 0..=max_degree {
                    if pp.powers_of_gamma_g[&k].mul(b).into_affine() != pp.powers_of_gamma_g[&(k + 1)] { bad.push(format!("gamma power {} inconsistent", k + 1)); break; }
                }
                if pp.h.mul(b).into_affine() != pp.beta_h { bad.push("beta_h != beta*h".into()); }
                if g2 {
                    if pp.neg_powers_of_h.len() != max_degree + 1 { bad.push("neg_powers_of_h size".into()); }
                    for k in 0..max_degree {
                        if pp.neg_powers_of_h[&(k + 1)].mul(b).into_affine() != pp.neg_powers_of_h[&k] { bad.push(format!("neg power {} inconsistent", k + 1)); break; }
                    }
                    if pp.neg_powers_of_h.get(&0) != Some(&pp.h) { bad.push("neg_powers_of_h[0] != h".into()); }
                } else if !pp.neg_powers_of_h.is_empty() { bad.push("unexpected G2 powers".into()); }
            }
        }
        // pairing identities e(P_{k+1}, h) == e(P_k, beta h) (independent of the recovered trapdoor)
        let step = if max_degree > 16 { 5 } else { 1 };
        let mut k = 0;
        while k < max_degree {
            if Bls12_381::pairing(pp.powers_of_g[k + 1], pp.h) != Bls12_381::pairing(pp.powers_of_g[k], pp.beta_h) { bad.push(format!("pairing identity fails at {}", k)); break; }
            k += step;
        }
        if pp.powers_of_g[0].is_zero() || pp.h.is_zero() || pp.powers_of_gamma_g[&0].is_zero() { bad.push("identity generator".into()); }
        use ark_poly_commit::PCUniversalParams;
        if pp.max_degree() != max_degree { bad.push("max_degree() report".into()); }
        if !bad.is_empty() {
            ctx.rep.expect_fail(&id, "kzg10/setup-inconsistent", &bad.join("; "), format!("# scheme: kzg10 setup({}, {})\n# seed {} case {}\n# {}\n", max_degree, g2, ctx.seed, id, bad.join("; ")));
        }
        // trim on the real parameters: faithful sub-keys (equals-spec), interoperability, boundary commit
        let supported = range(&mut rng, 1, max_degree);
        let shb = range(&mut rng, 0, supported);
        let tb: Option<Vec<usize>> = match range(&mut rng, 0, 3) { 0 => None, 1 => Some(vec![]), _ => Some((0..range(&mut rng, 1, 3)).map(|_| range(&mut rng, 1, max_degree)).collect()) };
        match guarded(|| MarlinPC::trim(&pp, supported, shb, tb.as_deref())) {
            Ok(Ok((ck, vk))) => {
                let mut bad: Vec<String> = vec![];
                if ck.powers != pp.powers_of_g[..=supported].to_vec() { bad.push("ck.powers is not the prefix of the parameters".into()); }
                let gp: Vec<G1Affine> = (0..=shb + 1).map(|k| pp.powers_of_gamma_g[&k]).collect();
                if ck.powers_of_gamma_g != gp { bad.push("ck gamma powers".into()); }
                if vk.vk.g != pp.powers_of_g[0] || vk.vk.gamma_g != pp.powers_of_gamma_g[&0] || vk.vk.h != pp.h || vk.vk.beta_h != pp.beta_h { bad.push("vk generators differ from the parameters".into()); }
                if ck.supported_degree() != supported || ck.max_degree() != max_degree || vk.supported_degree() != supported || vk.max_degree() != max_degree { bad.push("degree reports".into()); }
                let mut sorted = tb.clone().unwrap_or_default(); sorted.sort(); sorted.dedup();
                match (&tb, &ck.enforced_degree_bounds) {
                    (None, None) => {}
                    (Some(_), Some(b)) if *b == sorted => {}
                    _ => bad.push("enforced bounds are not sort(dedup(request))".into()),
                }
                if let Some(sh) = &vk.degree_bounds_and_shift_powers {
                    if sh.iter().map(|x| x.0).collect::<Vec<_>>() != sorted { bad.push("vk shift bounds".into()); }
                    for (d, p) in sh { if *p != pp.powers_of_g[max_degree - d] { bad.push(format!("shift power for bound {}", d)); } }
                    let last = *sorted.last().unwrap();
                    if ck.shifted_powers.as_ref() != Some(&pp.powers_of_g[max_degree - last..].to_vec()) { bad.push("shifted window".into()); }
                } else if !sorted.is_empty() { bad.push("missing shift powers".into()); }
                // second trim with other arguments: same verifier core (interoperability)
                if let Ok(Ok((_, vk2))) = guarded(|| MarlinPC::trim(&pp, max_degree, 0, None)) {
                    if vk2.vk.g != vk.vk.g || vk2.vk.h != vk.vk.h || vk2.vk.beta_h != vk.vk.beta_h || vk2.vk.gamma_g != vk.vk.gamma_g { bad.push("verifier cores of two trims differ".into()); }
                }
                // commit at degree == supported succeeds, supported+1 errs
                let p_ok = LabeledPolynomial::new("a".into(), DensePolynomial::<Fr>::rand(supported, &mut rng), None, None);
                let p_bad = LabeledPolynomial::new("b".into(), DensePolynomial::<Fr>::rand(supported + 1, &mut rng), None, None);
                if !matches!(guarded(|| MarlinPC::commit(&ck, [&p_ok], None)), Ok(Ok(_))) { bad.push("commit at degree == supported refused".into()); }
                if matches!(guarded(|| MarlinPC::commit(&ck, [&p_bad], None)), Ok(Ok(_))) { bad.push("commit at degree == supported+1 answered".into()); }
                if !bad.is_empty() {
                    ctx.rep.expect_fail(&id, "marlin/trim-unfaithful", &bad.join("; "), format!("# scheme: marlin trim on real setup\n# D={} s={} shb={} bounds={:?}\n# seed {} case {}\n# {}\n", max_degree, supported, shb, tb, ctx.seed, id, bad.join("; ")));
                }
            }
            other => {
                // in-domain iff all bounds <= max_degree
                let in_domain = tb.as_ref().map(|b| b.iter().all(|d| *d <= max_degree)).unwrap_or(true);
                if in_domain {
                    ctx.rep.expect_fail(&id, "marlin/trim-refused", &format!("in-domain trim refused: {:?}", other.map(|r| r.map(|_| ()).map_err(|e| err_kind(&e)))), format!("# marlin trim D={} s={} shb={} bounds={:?}\n", max_degree, supported, shb, tb));
                }
            }
        }
        // out-of-range trim requests
        if matches!(guarded(|| MarlinPC::trim(&pp, max_degree + 1, 0, None)), Ok(Ok(_))) {
            ctx.rep.expect_fail(&id, "marlin/trim-out-of-range-answered", "trim(supported = max_degree+1) answered", format!("# marlin trim D={}\n", max_degree));
        }
        if matches!(guarded(|| MarlinPC::trim(&pp, supported, 0, Some(&[max_degree + 1]))), Ok(Ok(_))) {
            ctx.rep.expect_fail(&id, "marlin/trim-out-of-range-answered", "trim with an enforced bound above max_degree answered", format!("# marlin trim D={}\n", max_degree));
        }
        ctx.rep.count(&format!("kzg10/setup-g2-{}", g2));
        ctx.rep.case(&format!("kzg10 setup D={} g2={} trim s={} shb={} B={:?}", max_degree, g2, supported, shb, tb), Some(format!("setup/{}/{}/{:?}", max_degree, g2, tb.as_ref().map(|b| b.len()))));
    }
}

/// trapdoor mode: `trim` against the model on unsorted / duplicated / empty / None bound lists
fn marlin_trim(ctx: &mut Ctx) {
    let n = ctx.n(40, 500);
    for i in 0..n {
        let id = format!("C09/marlin-trim/{}", i);
        if !ctx.selected(&id) { continue; }
        let mut rng = rng_for(ctx.seed, "C09/marlin-trim", i as u64);
        let max_degree = range(&mut rng, 1, 20);
        let trap = Trap::random(&mut rng, max_degree);
        let pp = trap.params(false);
        let supported = [0, 1, max_degree / 2, max_degree, max_degree + 1][range(&mut rng, 0, 4)].min(max_degree + 1);
        let shb = [0, 1, supported, max_degree, max_degree + 1][range(&mut rng, 0, 4)];
        let tb: Option<Vec<usize>> = match range(&mut rng, 0, 4) {
            0 => None,
            1 => Some(vec![]),
            _ => { let k = range(&mut rng, 1, 4); let mut v: Vec<usize> = (0..k).map(|_| range(&mut rng, 0, max_degree + 1)).collect(); if coin(&mut rng) { let d = v[0]; v.push(d); } Some(v) }
        };
        let r = guarded(|| MarlinPC::trim(&pp, supported, shb, tb.as_deref()));
        let dummy = |ck, vk| Case { trap: trap.clone(), supported, shb, tbounds: tb.clone(), ck, vk, polys: vec![], kinds: vec![], comms: vec![], rands: vec![] };
        match r {
            Ok(Ok((ck, vk))) => {
                let c = dummy(ck, vk);
                marlin::ask_trim_commit(ctx, &id, &c);
            }
            Ok(Err(e)) => {
                let c = Case { trap: trap.clone(), supported, shb, tbounds: tb.clone(), ck: MarlinPC::trim(&pp, 1.min(max_degree), 0, None).unwrap().0, vk: MarlinPC::trim(&pp, 1.min(max_degree), 0, None).unwrap().1, polys: vec![], kinds: vec![], comms: vec![], rands: vec![] };
                ctx.ses.ask(&id, c.base("marlin.trim"), ImplOutcome::Refuse(err_kind(&e)));
            }
            Err(a) => {
                let c = Case { trap: trap.clone(), supported, shb, tbounds: tb.clone(), ck: MarlinPC::trim(&pp, 1.min(max_degree), 0, None).unwrap().0, vk: MarlinPC::trim(&pp, 1.min(max_degree), 0, None).unwrap().1, polys: vec![], kinds: vec![], comms: vec![], rands: vec![] };
                ctx.ses.ask(&id, c.base("marlin.trim"), ImplOutcome::Refuse(a));
            }
        }
        ctx.rep.count(&format!("marlin/trim-bounds-{}", match &tb { None => "none", Some(v) if v.is_empty() => "empty", _ => "some" }));
        ctx.rep.case(&format!("marlin trim D={} s={} shb={} B={:?}", max_degree, supported, shb, tb), Some(format!("trim/{}/{}/{:?}", supported as i64 - max_degree as i64, shb as i64 - max_degree as i64, tb)));
    }
}

/// transparent setups (IPA, Hyrax): generators are valid, non-identity, pairwise distinct,
/// deterministic and prefix-stable
fn transparent_generators(ctx: &mut Ctx) {
    use ark_poly::DenseMultilinearExtension;
    let sizes: Vec<usize> = if ctx.thorough { vec![1, 2, 3, 7, 8, 15, 31, 64] } else { vec![1, 3, 8, 20] };
    let mut prev: Option<Vec<G1Affine>> = None;
    for &d in &sizes {
        let id = format!("C09/ipa-setup/{}", d);
        if !ctx.selected(&id) { continue; }
        let mut rng = rng_for(ctx.seed, "C09/ipa-setup", d as u64);
        let pp = match guarded(|| IpaPC::setup(d, None, &mut rng)) { Ok(Ok(p)) => p, _ => { ctx.rep.expect_fail(&id, "ipa/setup-refused", "setup refused", format!("# ipa setup({})\n", d)); continue; } };
        let mut rng2 = rng_for(ctx.seed ^ 99, "C09/ipa-setup-other", d as u64);
        let pp2 = IpaPC::setup(d, None, &mut rng2).unwrap();
        let mut bad: Vec<String> = vec![];
        if pp.comm_key != pp2.comm_key || pp.h != pp2.h || pp.s != pp2.s { bad.push("generators depend on the RNG (not derived from the protocol seed)".into()); }
        let mut all: Vec<G1Affine> = pp.comm_key.clone(); all.push(pp.h); all.push(pp.s);
        for p in &all { if p.is_zero() || !p.is_on_curve() || !p.is_in_correct_subgroup_assuming_on_curve() { bad.push("invalid / identity generator".into()); break; } }
        let set: std::collections::BTreeSet<String> = all.iter().map(|p| format!("{:?}", p)).collect();
        if set.len() != all.len() { bad.push("generators are not pairwise distinct".into()); }
        if (pp.comm_key.len()).count_ones() != 1 || pp.comm_key.len() < d + 1 { bad.push(format!("key length {} for degree {}", pp.comm_key.len(), d)); }
        if let Some(p) = &prev { let k = p.len().min(pp.comm_key.len()); if p[..k] != pp.comm_key[..k] { bad.push("generators are not prefix-stable".into()); } }
        // trim: truthful reports, prefix of the parameters
        if let Ok(Ok((ck, vk))) = guarded(|| IpaPC::trim(&pp, d, 0, None)) {
            if ck.comm_key[..] != pp.comm_key[..ck.comm_key.len()] || ck.h != pp.h || ck.s != pp.s || vk.comm_key != ck.comm_key { bad.push("trimmed key is not a prefix of the parameters".into()); }
            if PCCommitterKey::supported_degree(&ck) + 1 != ck.comm_key.len() || PCCommitterKey::supported_degree(&ck) < d { bad.push("supported_degree report".into()); }
        } else { bad.push("in-domain trim refused".into()); }
        if matches!(guarded(|| IpaPC::trim(&pp, pp.comm_key.len() + 5, 0, None)), Ok(Ok(_))) { bad.push("trim beyond the parameters answered".into()); }
        if !bad.is_empty() { ctx.rep.expect_fail(&id, "ipa/setup-inconsistent", &bad.join("; "), format!("# scheme: ipa setup({})\n# {}\n", d, bad.join("; "))); }
        prev = Some(pp.comm_key.clone());
        ctx.rep.case(&format!("ipa setup D={} key={}", d, pp.comm_key.len()), Some(format!("ipa-setup/{}", d)));
    }
    let mut prevh: Option<Vec<G1Affine>> = None;
    for nv in [2usize, 4, 6, 8] {
        let id = format!("C09/hyrax-setup/{}", nv);
        if !ctx.selected(&id) { continue; }
        let mut rng = rng_for(ctx.seed, "C09/hyrax-setup", nv as u64);
        type H = HyraxScheme;
        let pp = match guarded(|| <H as PolynomialCommitment<Fr, DenseMultilinearExtension<Fr>>>::setup(1, Some(nv), &mut rng)) { Ok(Ok(p)) => p, _ => { ctx.rep.expect_fail(&id, "hyrax/setup-refused", "setup refused", format!("# hyrax setup nv={}\n", nv)); continue; } };
        let mut rng2 = rng_for(ctx.seed ^ 7, "C09/hyrax-other", nv as u64);
        let pp2 = <H as PolynomialCommitment<Fr, DenseMultilinearExtension<Fr>>>::setup(1, Some(nv), &mut rng2).unwrap();
        let mut bad: Vec<String> = vec![];
        if pp.com_key != pp2.com_key || pp.h != pp2.h { bad.push("generators depend on the RNG".into()); }
        let mut all = pp.com_key.clone(); all.push(pp.h);
        for p in &all { if p.is_zero() || !p.is_on_curve() || !p.is_in_correct_subgroup_assuming_on_curve() { bad.push("invalid / identity generator".into()); break; } }
        let set: std::collections::BTreeSet<String> = all.iter().map(|p| format!("{:?}", p)).collect();
        if set.len() != all.len() { bad.push("generators are not pairwise distinct".into()); }
        if pp.com_key.len() != 1 << (nv / 2) { bad.push(format!("key length {} for nv {}", pp.com_key.len(), nv)); }
        if let Some(p) = &prevh { let k = p.len().min(pp.com_key.len()); if p[..k] != pp.com_key[..k] { bad.push("generators are not prefix-stable".into()); } }
        if !bad.is_empty() { ctx.rep.expect_fail(&id, "hyrax/setup-inconsistent", &bad.join("; "), format!("# scheme: hyrax setup nv={}\n# {}\n", nv, bad.join("; "))); }
        prevh = Some(pp.com_key.clone());
        ctx.rep.case(&format!("hyrax setup nv={} key={}", nv, pp.com_key.len()), Some(format!("hyrax-setup/{}", nv)));
    }
    let _ = (Fr::one(), wire::nat(0));
}

/// The prepared form of a Marlin verifier key carries, for every enforced bound, the doubling table of THAT
/// bound's shift element (`table[0]` = the shift element of the key, `table[k+1] = 2·table[k]`, one entry per
/// bit of the scalar field): what `trim` states about shift elements must survive `prepare`.
fn marlin_prepared_keys(ctx: &mut Ctx) {
    use ark_ec::{AffineRepr, CurveGroup};
    use ark_ff::PrimeField;
    use ark_poly_commit::marlin_pc::PreparedVerifierKey;
    use ark_poly_commit::{PCPreparedVerifierKey, PolynomialCommitment};
    type PC = crate::generic::MarlinPC;
    for i in 0..ctx.n(3, 12) {
        let id = format!("C09/marlin-prepared-key/{}", i);
        if !ctx.selected(&id) {
            continue;
        }
        let mut rng = rng_for(ctx.seed, "C09/marlin-prepared-key", i as u64);
        let d = 12 + i % 6;
        let bounds: Vec<usize> = match i % 3 { 0 => vec![4, 9, d], 1 => vec![d - 1, 2], _ => vec![3] };
        let r = guarded(|| -> Result<Vec<String>, String> {
            let pp = PC::setup(d, None, &mut rng).map_err(|e| format!("{:?}", e))?;
            let (_ck, vk) = PC::trim(&pp, d, 1, Some(&bounds)).map_err(|e| format!("{:?}", e))?;
            let pvk = PreparedVerifierKey::prepare(&vk);
            let mut bad = vec![];
            let plain = vk.degree_bounds_and_shift_powers.clone().unwrap_or_default();
            let prep = pvk.prepared_degree_bounds_and_shift_powers.clone().unwrap_or_default();
            if plain.len() != prep.len() {
                bad.push(format!("{} bounds in the key, {} tables in the prepared key", plain.len(), prep.len()));
            }
            let bits = <Fr as PrimeField>::MODULUS_BIT_SIZE as usize;
            for ((b, s), (pb, table)) in plain.iter().zip(prep.iter()) {
                if b != pb {
                    bad.push(format!("bound {} became {}", b, pb));
                }
                if table.len() != bits {
                    bad.push(format!("table of bound {} has {} entries, the scalar field has {} bits", b, table.len(), bits));
                }
                if table.first() != Some(s) {
                    bad.push(format!("table of bound {} does not start with that bound's shift element", b));
                }
                for k in 0..table.len().min(4).saturating_sub(1) {
                    if (table[k].into_group() + table[k].into_group()).into_affine() != table[k + 1] {
                        bad.push(format!("table of bound {}: entry {} is not twice entry {}", b, k + 1, k));
                    }
                }
            }
            if pvk.max_degree != vk.max_degree || pvk.supported_degree != vk.supported_degree {
                bad.push("degree reports changed".into());
            }
            Ok(bad)
        });
        match r {
            Ok(Ok(bad)) => {
                if !bad.is_empty() {
                    ctx.rep.expect_fail(&id, "marlin/prepared-key-shift-tables", &format!("PreparedVerifierKey::prepare: {}", bad.join("; ")),
                        format!("# scheme: marlin\n# case: {}\n# seed: {}\n# setup({}), trim(pp, {}, 1, Some({:?})), PreparedVerifierKey::prepare(&vk)\n# rerun: .build/cargo/debug/pcv-harness C09 --seed {} --only {}\n", id, ctx.seed, d, d, bounds, ctx.seed, id));
                }
                ctx.rep.case(&format!("marlin prepared key bounds {:?}: {} problems", bounds, bad.len()), Some(format!("marlin-prepared/{}", bounds.len())));
            }
            Ok(Err(e)) | Err(e) => ctx.rep.notes.push(format!("{}: not run ({})", id, e.chars().take(60).collect::<String>())),
        }
    }
}
