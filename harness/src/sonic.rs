//! SonicKZG10 in trapdoor mode, model-backed (Lean model: PCV/Model/Sonic.lean).
//! Universal parameters are built from known scalars (`kzg::Trap::params(true)`), so every group
//! element the library returns is `scalar · generator` for a scalar the model computes.
use crate::common::*;
use crate::kzg::Trap;
use crate::wire::{self, Req, Val};
use crate::Ctx;
use ark_bls12_381::{Bls12_381, Fr, G2Affine};
use ark_ff::{Field, UniformRand, Zero};
use ark_poly::{univariate::DensePolynomial, DenseUVPolynomial, Polynomial};
use ark_poly_commit::kzg10;
use ark_poly_commit::sonic_pc::{CommitterKey, SonicKZG10, VerifierKey};
use ark_poly_commit::{
    Evaluations, LabeledCommitment, LabeledPolynomial, PCCommitterKey, PCVerifierKey, PolynomialCommitment, QuerySet,
};

pub type UniPoly = DensePolynomial<Fr>;
pub type PC = SonicKZG10<Bls12_381, UniPoly>;
pub type LC = LabeledCommitment<kzg10::Commitment<Bls12_381>>;
pub type LP = LabeledPolynomial<Fr, UniPoly>;
pub type Rand = kzg10::Randomness<Fr, UniPoly>;
pub type Proof = kzg10::Proof<Bls12_381>;

pub struct Case {
    pub trap: Trap,
    pub supported: usize,
    pub shb: usize,
    pub tbounds: Option<Vec<usize>>,
    pub ck: CommitterKey<Bls12_381>,
    pub vk: VerifierKey<Bls12_381>,
    pub polys: Vec<LP>,
    pub kinds: Vec<&'static str>,
    pub comms: Vec<LC>,
    pub rands: Vec<Rand>,
}

/// a commitment in scalar form
#[derive(Clone, Debug)]
pub struct CommS {
    pub label: String,
    pub c: Fr,
    pub bound: Option<usize>,
}

/// a verifier key in scalar form (`neg_h[i]` belongs to the i-th enforced bound)
#[derive(Clone, Debug)]
pub struct VkS {
    pub g: Fr,
    pub gamma_g: Fr,
    pub h: Fr,
    pub beta_h: Fr,
    pub neg_h: Option<Vec<(usize, Fr)>>,
}

/// request prefix: universal parameters + trim arguments
pub fn base_req(op: &str, trap: &Trap, g2_powers: bool, supported: usize, shb: usize, tbounds: &Option<Vec<usize>>) -> Req {
    let neg: Vec<Fr> = if g2_powers { trap.neg_h() } else { vec![] };
    Req::new(op)
        .arg("pg", wire::fes(&trap.pg()))
        .arg("pgg", wire::fes(&trap.pgg()))
        .arg("h", wire::fe(&trap.h))
        .arg("beta_h", wire::fe(&(trap.h * trap.beta)))
        .arg("neg_h", wire::fes(&neg))
        .arg("supported", wire::nat(supported))
        .arg("shb", wire::nat(shb))
        .arg("tbounds", wire::opt(tbounds.as_ref().map(|b| wire::nats(b))))
}

pub fn polys_args(r: Req, polys: &[LP]) -> Req {
    r.arg("labels", Val::L(polys.iter().map(|p| wire::label(p.label())).collect()))
        .arg("polys", Val::L(polys.iter().map(|p| wire::fes(&p.polynomial().coeffs)).collect()))
        .arg("bounds", Val::L(polys.iter().map(|p| wire::opt_nat(p.degree_bound())).collect()))
        .arg("hbs", Val::L(polys.iter().map(|p| wire::opt_nat(p.hiding_bound())).collect()))
}

pub fn rands_args(r: Req, rands: &[Rand]) -> Req {
    r.arg("rands", Val::L(rands.iter().map(|x| wire::fes(&x.blinding_polynomial.coeffs)).collect()))
}

pub fn comms_args(r: Req, cs: &[CommS]) -> Req {
    r.arg("clabels", Val::L(cs.iter().map(|c| wire::label(&c.label)).collect()))
        .arg("cs", wire::fes(&cs.iter().map(|c| c.c).collect::<Vec<_>>()))
        .arg("cbounds", Val::L(cs.iter().map(|c| wire::opt_nat(c.bound)).collect()))
}

pub fn comms_from(cs: &[CommS]) -> Vec<LC> {
    cs.iter().map(|c| LabeledCommitment::new(c.label.clone(), kzg10::Commitment(g1(c.c)), c.bound)).collect()
}

/// the expected fields of a `sonic.trim` reply
pub fn trim_expect(ck: &CommitterKey<Bls12_381>, vk: &VerifierKey<Bls12_381>) -> Vec<(String, Expect)> {
    let mut out: Vec<(String, Expect)> = vec![
        ("powers".into(), Expect::G1s(ck.powers_of_g.clone())),
        ("gamma".into(), Expect::G1s(ck.powers_of_gamma_g.clone())),
        (
            "shifted".into(),
            match &ck.shifted_powers_of_g {
                Some(sp) => Expect::SomeG1s(sp.clone()),
                None => Expect::Raw(Val::None),
            },
        ),
        ("bounds".into(), Expect::Raw(wire::opt(ck.enforced_degree_bounds.as_ref().map(|b| wire::nats(b))))),
        ("max_degree".into(), Expect::Nat(ck.max_degree())),
        ("ck_supported".into(), Expect::Nat(ck.supported_degree())),
        ("g".into(), Expect::G1(vk.g)),
        ("gamma_g".into(), Expect::G1(vk.gamma_g)),
        ("vh".into(), Expect::G2(vk.h)),
        ("vbeta_h".into(), Expect::G2(vk.beta_h)),
        ("supported".into(), Expect::Nat(vk.supported_degree())),
        ("vk_max_degree".into(), Expect::Nat(vk.max_degree())),
        (
            "sg_bounds".into(),
            Expect::Raw(wire::opt(ck.shifted_powers_of_gamma_g.as_ref().map(|m| wire::nats(&m.keys().cloned().collect::<Vec<_>>())))),
        ),
        (
            "nh_bounds".into(),
            Expect::Raw(wire::opt(vk.degree_bounds_and_neg_powers_of_h.as_ref().map(|v| wire::nats(&v.iter().map(|x| x.0).collect::<Vec<_>>())))),
        ),
    ];
    if let Some(m) = &ck.shifted_powers_of_gamma_g {
        for (i, (_, v)) in m.iter().enumerate() {
            out.push((format!("sg{}", i), Expect::G1s(v.clone())));
        }
    }
    if let Some(v) = &vk.degree_bounds_and_neg_powers_of_h {
        for (i, (_, e)) in v.iter().enumerate() {
            out.push((format!("nh{}", i), Expect::G2(*e)));
        }
    }
    out
}

impl Case {
    pub fn desc(&self) -> String {
        format!(
            "sonic D={} s={} shb={} B={:?} polys=[{}]",
            self.trap.max_degree,
            self.supported,
            self.shb,
            self.tbounds,
            self.polys
                .iter()
                .zip(&self.kinds)
                .map(|(p, k)| format!("{}:{}:deg{}:b{:?}:h{:?}", p.label(), k, p.degree(), p.degree_bound(), p.hiding_bound()))
                .collect::<Vec<_>>()
                .join(" ")
        )
    }
    pub fn base(&self, op: &str) -> Req {
        base_req(op, &self.trap, true, self.supported, self.shb, &self.tbounds)
    }
    /// β^{D-d} for a bound, 1 for none
    pub fn shift(&self, bound: Option<usize>) -> Fr {
        match bound {
            Some(d) => self.trap.beta.pow([(self.trap.max_degree - d) as u64]),
            None => Fr::from(1u64),
        }
    }
    /// scalars of the commitments, from the trapdoor: β^{D-d}(g·p(β) + γ·r(β)); checked against the
    /// library's group elements
    pub fn comm_scalars(&self) -> Option<Vec<CommS>> {
        let beta = self.trap.beta;
        let mut out = vec![];
        for ((p, c), r) in self.polys.iter().zip(&self.comms).zip(&self.rands) {
            let cs = self.shift(p.degree_bound()) * (self.trap.g * p.evaluate(&beta) + self.trap.gamma * r.blinding_polynomial.evaluate(&beta));
            if g1(cs) != c.commitment().0 || c.degree_bound() != p.degree_bound() {
                return None;
            }
            out.push(CommS { label: p.label().clone(), c: cs, bound: c.degree_bound() });
        }
        Some(out)
    }
    /// the verifier key in scalar form, from the trapdoor (checked against the key)
    pub fn vk_scalars(&self) -> Option<VkS> {
        let binv = self.trap.beta.inverse().unwrap();
        let neg_h = self.vk.degree_bounds_and_neg_powers_of_h.as_ref().map(|v| {
            v.iter().map(|(d, _)| (*d, self.trap.h * binv.pow([(self.trap.max_degree - d) as u64]))).collect::<Vec<_>>()
        });
        let s = VkS { g: self.trap.g, gamma_g: self.trap.gamma, h: self.trap.h, beta_h: self.trap.h * self.trap.beta, neg_h };
        let ok = g1(s.g) == self.vk.g
            && g1(s.gamma_g) == self.vk.gamma_g
            && g2(s.h) == self.vk.h
            && g2(s.beta_h) == self.vk.beta_h
            && match (&s.neg_h, &self.vk.degree_bounds_and_neg_powers_of_h) {
                (Some(a), Some(b)) => a.len() == b.len() && a.iter().zip(b).all(|(x, y)| x.0 == y.0 && g2(x.1) == y.1),
                (None, None) => true,
                _ => false,
            };
        if ok {
            Some(s)
        } else {
            None
        }
    }
}

pub fn vk_from(s: &VkS, supported: usize, max_degree: usize) -> VerifierKey<Bls12_381> {
    let h = g2(s.h);
    let bh = g2(s.beta_h);
    VerifierKey {
        g: g1(s.g),
        gamma_g: g1(s.gamma_g),
        h,
        beta_h: bh,
        prepared_h: h.into(),
        prepared_beta_h: bh.into(),
        degree_bounds_and_neg_powers_of_h: s.neg_h.as_ref().map(|v| v.iter().map(|(d, x)| (*d, g2(*x))).collect::<Vec<(usize, G2Affine)>>()),
        supported_degree: supported,
        max_degree,
    }
}

/// key overrides for the model (only the elements that differ from the honest key)
pub fn vk_override_args(mut r: Req, honest: &VkS, vk: &VkS) -> Req {
    if vk.g != honest.g {
        r = r.arg("vk_g", wire::fe(&vk.g));
    }
    if vk.gamma_g != honest.gamma_g {
        r = r.arg("vk_gamma_g", wire::fe(&vk.gamma_g));
    }
    if vk.h != honest.h {
        r = r.arg("vk_h", wire::fe(&vk.h));
    }
    if vk.beta_h != honest.beta_h {
        r = r.arg("vk_beta_h", wire::fe(&vk.beta_h));
    }
    if let (Some(a), Some(b)) = (&vk.neg_h, &honest.neg_h) {
        if a.iter().zip(b).any(|(x, y)| x.1 != y.1) {
            r = r.arg("vk_neg_h", wire::fes(&a.iter().map(|x| x.1).collect::<Vec<_>>()));
        }
    }
    r
}

/// Build a case: keys from a trapdoor, structured polynomials with bounds (≤ supported, as Sonic's
/// trim demands) and hiding bounds (≤ degree bound, as the truncated shifted γ-window demands).
pub fn gen_case(rng: &mut Rng, max_d: usize, npoly: usize, want_bounds: bool, want_hiding: bool) -> Result<Case, String> {
    let max_degree = range(rng, 2, max_d);
    let trap = Trap::random(rng, max_degree);
    let pp = trap.params(true);
    // now and then the whole range
    let supported = if range(rng, 0, 5) == 0 { max_degree } else { range(rng, 1, max_degree) };
    let mut polys = vec![];
    let mut kinds = vec![];
    let mut bounds: Vec<usize> = vec![];
    let mut max_h = 0;
    for i in 0..npoly {
        let (p, kind) = crate::kzg::gen_poly(rng, supported);
        let deg = p.degree();
        let bound = if want_bounds && range(rng, 0, 2) != 0 {
            let lo = deg.max(1);
            let b = match range(rng, 0, 3) {
                0 => lo,
                1 => supported,
                _ => range(rng, lo, supported),
            };
            bounds.push(b);
            Some(b)
        } else {
            None
        };
        let hiding = if want_hiding && coin(rng) {
            let hi = bound.unwrap_or(supported).min(supported);
            let h = match range(rng, 0, 3) {
                0 => 0,
                1 => hi,
                _ => range(rng, 0, hi),
            };
            max_h = max_h.max(h);
            Some(h)
        } else {
            None
        };
        polys.push(LabeledPolynomial::new(format!("p{}", i), p, bound, hiding));
        kinds.push(kind);
    }
    // the bound list handed to trim: unsorted, with duplicates and extras
    let tbounds = if want_bounds && (!bounds.is_empty() || coin(rng)) {
        let mut b = bounds.clone();
        if coin(rng) && !b.is_empty() {
            b.push(b[0]);
        }
        if coin(rng) {
            b.push(range(rng, 1, supported));
        }
        // bound sets with gaps: a small and a large extra bound far apart
        if supported >= 4 && coin(rng) {
            b.push(range(rng, 1, supported / 3));
            b.push(range(rng, supported - supported / 3, supported));
        }
        for i in (1..b.len()).rev() {
            let j = range(rng, 0, i);
            b.swap(i, j);
        }
        Some(b)
    } else {
        None
    };
    let shb = if coin(rng) { max_h } else { range(rng, max_h, max_degree) };
    let (ck, vk) = PC::trim(&pp, supported, shb, tbounds.as_deref()).map_err(|e| format!("trim: {:?}", e))?;
    let (comms, rands) = PC::commit(&ck, &polys, Some(rng)).map_err(|e| format!("commit: {:?}", e))?;
    Ok(Case { trap, supported, shb, tbounds, ck, vk, polys, kinds, comms, rands })
}

/// queue `sonic.trim` and `sonic.commit` for the case (C01/C08/C09)
pub fn ask_trim_commit(ctx: &mut Ctx, id: &str, c: &Case) {
    ctx.ses.ask(id, c.base("sonic.trim"), ImplOutcome::Ok(trim_expect(&c.ck, &c.vk)));
    // commit with the blinding coefficients as the RNG draws (one block per hiding polynomial)
    let mut draws: Vec<Fr> = vec![];
    for r in &c.rands {
        draws.extend(r.blinding_polynomial.coeffs.iter());
    }
    let req = polys_args(c.base("sonic.commit"), &c.polys).arg("rng", wire::boolean(true)).arg("draws", wire::fes(&draws));
    let out = ImplOutcome::Ok(vec![
        ("cs".into(), Expect::G1s(c.comms.iter().map(|x| x.commitment().0).collect())),
        ("cbounds".into(), Expect::Raw(Val::L(c.comms.iter().map(|x| wire::opt_nat(x.degree_bound())).collect()))),
        ("rands".into(), Expect::Raw(Val::L(c.rands.iter().map(|x| wire::fes(&x.blinding_polynomial.coeffs)).collect()))),
        ("used".into(), Expect::Nat(draws.len())),
    ]);
    ctx.ses.ask(id, req, out);
}

pub struct Opened {
    pub z: Fr,
    pub values: Vec<Fr>,
    pub proof: Proof,
    pub xis: Vec<Fr>,
    pub w_s: Fr,
}

/// honest `open` of the given polynomials at `z`; queues `sonic.open`
pub fn open_at(ctx: &mut Ctx, rng: &mut Rng, id: &str, c: &Case, polys: &[LP], comms: &[LC], rands: &[Rand], z: Fr) -> Result<Opened, String> {
    let values: Vec<Fr> = polys.iter().map(|p| p.evaluate(&z)).collect();
    let mut sp = LogSponge::fresh();
    let r = guarded(|| PC::open(&c.ck, polys, comms, &z, &mut sp, rands, Some(rng)));
    let proof = match r {
        Ok(Ok(p)) => p,
        Ok(Err(e)) => return Err(err_kind(&e)),
        Err(a) => return Err(a),
    };
    let xis = sp.challenges();
    let req = rands_args(polys_args(c.base("sonic.open"), polys), rands).arg("z", wire::fe(&z)).arg("xis", wire::fes(&xis));
    ctx.ses.ask(
        id,
        req,
        ImplOutcome::Ok(vec![
            ("w".into(), Expect::G1(proof.w)),
            ("rv".into(), Expect::OptFe(proof.random_v)),
            ("used".into(), Expect::Nat(xis.len())),
        ]),
    );
    let w_s = witness_scalar(&c.trap, polys, rands, &z, &xis);
    Ok(Opened { z, values, proof, xis, w_s })
}

pub fn open_all(ctx: &mut Ctx, rng: &mut Rng, id: &str, c: &Case) -> Result<Opened, String> {
    let z = Fr::rand(rng);
    open_at(ctx, rng, id, c, &c.polys, &c.comms, &c.rands, z)
}

/// W = Σ ξ_j (g·w_j(β) + γ·w_{r_j}(β)) — the witness is made under the UNshifted powers
pub fn witness_scalar(trap: &Trap, polys: &[LP], rands: &[Rand], z: &Fr, xis: &[Fr]) -> Fr {
    let beta = trap.beta;
    let div = UniPoly::from_coefficients_vec(vec![-*z, Fr::from(1u64)]);
    let mut w = Fr::zero();
    for ((p, r), xi) in polys.iter().zip(rands).zip(xis) {
        let wp = p.polynomial() / &div;
        let wr = &r.blinding_polynomial / &div;
        w += *xi * (trap.g * wp.evaluate(&beta) + trap.gamma * wr.evaluate(&beta));
    }
    w
}

#[derive(Clone, Copy, Debug, PartialEq, Eq)]
pub enum Outcome3 {
    Accept,
    Reject,
    Refuse,
}

/// run the library verifier on a statement given in scalar form and queue `sonic.check`
pub fn check_scalar(ctx: &mut Ctx, id: &str, c: &Case, honest_vk: &VkS, vk_s: &VkS, cs: &[CommS], z: Fr, vs: &[Fr], w: Fr, rv: Option<Fr>) -> Outcome3 {
    let comms = comms_from(cs);
    let vk = vk_from(vk_s, c.supported, c.trap.max_degree);
    let proof = Proof { w: g1(w), random_v: rv };
    let mut sp = LogSponge::fresh();
    let r = guarded(|| PC::check(&vk, &comms, &z, vs.iter().cloned(), &proof, &mut sp, None));
    let xis = sp.challenges();
    let (out, o3) = match r {
        Ok(Ok(b)) => (
            ImplOutcome::Ok(vec![("b".into(), Expect::Bool(b)), ("used".into(), Expect::Nat(xis.len())), ("defect_zero".into(), Expect::Bool(b))]),
            if b { Outcome3::Accept } else { Outcome3::Reject },
        ),
        Ok(Err(e)) => (ImplOutcome::Refuse(err_kind(&e)), Outcome3::Refuse),
        Err(a) => (ImplOutcome::Refuse(a), Outcome3::Refuse),
    };
    // the model needs as many challenges as the verifier squeezes when it runs to the end
    let mut xis_full = xis.clone();
    let need = 1 + cs.len().min(vs.len());
    let mut extra = rng_for(0, id, 77);
    while xis_full.len() < need {
        xis_full.push(Fr::rand(&mut extra));
    }
    let req = vk_override_args(comms_args(c.base("sonic.check"), cs), honest_vk, vk_s)
        .arg("z", wire::fe(&z))
        .arg("vs", wire::fes(vs))
        .arg("w", wire::fe(&w))
        .arg("rv", wire::opt_fe(&rv))
        .arg("xis", wire::fes(&xis_full));
    ctx.ses.ask(id, req, out);
    o3
}

/// a query set over the case's polynomials; returns (query set, evaluations)
pub fn gen_queries(rng: &mut Rng, c: &Case, nlabels: usize) -> (QuerySet<Fr>, Evaluations<Fr, Fr>) {
    let mut qs = QuerySet::new();
    let mut ev = Evaluations::new();
    let mut pts: Vec<Fr> = vec![];
    for l in 0..nlabels {
        let pt = if l > 0 && coin(rng) { pts[range(rng, 0, pts.len() - 1)] } else { Fr::rand(rng) };
        pts.push(pt);
        let mut any = false;
        for (i, p) in c.polys.iter().enumerate() {
            if coin(rng) || (!any && i + 1 == c.polys.len()) {
                any = true;
                qs.insert((p.label().clone(), (format!("pt{}", l), pt)));
                ev.insert((p.label().clone(), pt), p.evaluate(&pt));
            }
        }
    }
    (qs, ev)
}

pub fn queries_args(r: Req, qs: &QuerySet<Fr>) -> Req {
    r.arg("qlabels", Val::L(qs.iter().map(|q| wire::label(&q.0)).collect()))
        .arg("qplabels", Val::L(qs.iter().map(|q| wire::label(&(q.1).0)).collect()))
        .arg("qpoints", wire::fes(&qs.iter().map(|q| (q.1).1).collect::<Vec<_>>()))
}
pub fn evals_args(r: Req, ev: &Evaluations<Fr, Fr>) -> Req {
    r.arg("elabels", Val::L(ev.keys().map(|k| wire::label(&k.0)).collect()))
        .arg("epoints", wire::fes(&ev.keys().map(|k| k.1).collect::<Vec<_>>()))
        .arg("evals", wire::fes(&ev.values().cloned().collect::<Vec<_>>()))
}

/// honest trait-default `batch_open`; queues `sonic.batch_open`; returns proofs and the scalars of
/// the witnesses (one `open` per point label: `1 + n_k` challenges each)
pub fn batch_open(ctx: &mut Ctx, rng: &mut Rng, id: &str, c: &Case, qs: &QuerySet<Fr>) -> Result<(Vec<Proof>, Vec<Fr>), String> {
    let mut sp = LogSponge::fresh();
    let r = guarded(|| PC::batch_open(&c.ck, &c.polys, &c.comms, qs, &mut sp, &c.rands, Some(rng)));
    let proofs = match r {
        Ok(Ok(p)) => p,
        Ok(Err(e)) => return Err(err_kind(&e)),
        Err(a) => return Err(a),
    };
    let xis = sp.challenges();
    let req = queries_args(rands_args(polys_args(c.base("sonic.batch_open"), &c.polys), &c.rands), qs).arg("xis", wire::fes(&xis));
    ctx.ses.ask(
        id,
        req,
        ImplOutcome::Ok(vec![
            ("ws".into(), Expect::G1s(proofs.iter().map(|p| p.w).collect())),
            ("rvs".into(), Expect::Raw(Val::L(proofs.iter().map(|p| wire::opt_fe(&p.random_v)).collect()))),
            ("used".into(), Expect::Nat(xis.len())),
        ]),
    );
    let mut ws = vec![];
    let mut k = 0;
    for (_, pt, labels) in crate::generic::group(qs) {
        let sub: Vec<usize> = labels.iter().filter_map(|l| c.polys.iter().position(|p| p.label() == l)).collect();
        let polys: Vec<LP> = sub.iter().map(|&i| c.polys[i].clone()).collect();
        let rands: Vec<Rand> = sub.iter().map(|&i| c.rands[i].clone()).collect();
        let need = 1 + polys.len();
        if k + need > xis.len() {
            break;
        }
        ws.push(witness_scalar(&c.trap, &polys, &rands, &pt, &xis[k..k + need]));
        k += need;
    }
    Ok((proofs, ws))
}

/// run Sonic's `batch_check` on a statement in scalar form and queue `sonic.batch_check`
pub fn batch_check_scalar(ctx: &mut Ctx, rng: &mut Rng, id: &str, c: &Case, cs: &[CommS], qs: &QuerySet<Fr>, ev: &Evaluations<Fr, Fr>, ws: &[Fr], rvs: &[Option<Fr>]) -> Outcome3 {
    let comms = comms_from(cs);
    let proofs: Vec<Proof> = ws.iter().zip(rvs).map(|(w, rv)| Proof { w: g1(*w), random_v: *rv }).collect();
    let ngroups = crate::generic::group(qs).len();
    let rs = crate::kzg::replay_u128(rng, proofs.len().max(ngroups) + 1);
    let mut sp = LogSponge::fresh();
    let r = guarded(|| PC::batch_check(&c.vk, &comms, qs, ev, &proofs, &mut sp, rng));
    let xis = sp.challenges();
    let (out, o3) = match r {
        Ok(Ok(b)) => (ImplOutcome::Ok(vec![("b".into(), Expect::Bool(b))]), if b { Outcome3::Accept } else { Outcome3::Reject }),
        Ok(Err(e)) => (ImplOutcome::Refuse(err_kind(&e)), Outcome3::Refuse),
        Err(a) => (ImplOutcome::Refuse(a), Outcome3::Refuse),
    };
    let mut xis_full = xis.clone();
    let mut extra = rng_for(1, id, 78);
    while xis_full.len() < qs.len() + ngroups + 2 {
        xis_full.push(Fr::rand(&mut extra));
    }
    let req = evals_args(queries_args(comms_args(c.base("sonic.batch_check"), cs), qs), ev)
        .arg("ws", wire::fes(ws))
        .arg("rvs", Val::L(rvs.iter().map(|x| wire::opt_fe(x)).collect()))
        .arg("xis", wire::fes(&xis_full))
        .arg("rs", wire::fes(&rs));
    ctx.ses.ask(id, req, out);
    o3
}

/// the challenges a fresh sponge yields: SonicKZG10 never absorbs, so `open`, `check`, `batch_open`
/// and `batch_check` all see this very sequence whatever the statement is
pub fn fresh_challenges(n: usize) -> Vec<Fr> {
    use ark_crypto_primitives::sponge::CryptographicSponge;
    let mut sp = LogSponge::fresh();
    (0..n).map(|_| sp.squeeze_field_elements_with_sizes::<Fr>(&[ark_poly_commit::CHALLENGE_SIZE])[0]).collect()
}
