//! Model-backed runs for the lincode scheme: `run(ctx, prop)` is called for every property; handle the
//! properties this scheme takes part in and return immediately for the others.
//!
//! Instances: univariate Ligero, multilinear Ligero, multilinear Brakedown (aliases of generic.rs),
//! honest transcripts over a ladder of sizes, with and without the well-formedness check, two
//! security levels; the Lean model (`lincode.*` ops) decides every mutated transcript as well.
#[path = "lincode.rs"]
mod lincode;

use crate::common::*;
use crate::Ctx;
use ark_bls12_381::Fr;
use ark_crypto_primitives::merkle_tree::Path;
use ark_ff::{Field, UniformRand, Zero};
use ark_poly_commit::linear_codes::{LinCodeParametersInfo, LinearEncode};
use ark_serialize::{CanonicalSerialize, Compress};
use lincode::*;

pub fn run(ctx: &mut Ctx, prop: &str) {
    match prop {
        "C01" => all(ctx, prop, c01_case),
        "C02" => all(ctx, prop, c02_case),
        "C03" => {
            crate::props_c13::brakedown_structure(ctx, prop);
            all(ctx, prop, c03_case);
            if std::env::var("PCV_LINCODE_PROBE").is_ok() {
                probe_nv0(ctx);
            }
        }
        "C08" => all(ctx, prop, c08_case),
        "C09" => {
            c09(ctx);
            crate::props_c13::brakedown_structure(ctx, prop);
        }
        "C10" => all(ctx, prop, c10_case),
        "C11" => {
            all(ctx, prop, c11_case);
            if std::env::var("PCV_C11_PROBE").is_ok() {
                probe_displaced_tiny();
            }
        }
        "C19" => all(ctx, prop, c19_case),
        "C13" => all(ctx, prop, c13_case),
        "C17" => all(ctx, prop, c17_case),
        _ => {}
    }
}

#[derive(Clone, Copy, PartialEq, Eq, Debug)]
enum Which {
    Uni,
    Ml,
    Bd,
}

/// one case: the sizes of its polynomials (coefficient counts, or numbers of variables), the
/// well-formedness flag, the security parameter and the inverse rate
#[derive(Clone, Debug)]
struct Spec {
    sizes: Vec<usize>,
    wf: bool,
    sec: usize,
    rho_inv: usize,
    /// 0 random, 1 zero polynomial, 2 constant, 3 sparse (mostly zero)
    kind: usize,
}

fn specs(which: Which, prop: &str, thorough: bool) -> Vec<Spec> {
    let mut v = vec![];
    let light = prop != "C01" && prop != "C19" && prop != "C08";
    match which {
        Which::Uni => {
            // number of coefficients: 0 = the zero polynomial with an empty coefficient vector
            let ladder: Vec<usize> = if thorough {
                let mut l: Vec<usize> = (0..=66).collect();
                l.extend([96, 127, 128, 129, 200, 255, 256, 257, 300, 400, 511, 512, 513]);
                l
            } else if light {
                vec![0, 1, 2, 3, 5, 8, 17, 33, 41, 65]
            } else {
                (0..=65).collect()
            };
            for (i, n) in ladder.iter().enumerate() {
                let (sec, rho) = [(128, 4), (32, 2), (80, 8), (128, 2)][i % 4];
                v.push(Spec { sizes: vec![*n], wf: i % 2 == 0, sec, rho_inv: rho, kind: if *n == 0 { 1 } else { 0 } });
                if thorough || !light || i % 3 == 0 {
                    v.push(Spec { sizes: vec![*n], wf: i % 2 == 1, sec, rho_inv: rho, kind: if *n == 0 { 1 } else if *n == 1 { 2 } else { 0 } });
                }
            }
            if prop == "C13" {
                for n in [1usize, 1, 3] {
                    v.push(Spec { sizes: vec![n], wf: n == 1, sec: 128, rho_inv: 4, kind: 2 });
                }
                for n in [200usize, 300, 512] {
                    v.push(Spec { sizes: vec![n], wf: true, sec: 128, rho_inv: 4, kind: 0 });
                    v.push(Spec { sizes: vec![n], wf: false, sec: 128, rho_inv: 2, kind: 0 });
                }
            }
            v.push(Spec { sizes: vec![7, 7], wf: true, sec: 128, rho_inv: 4, kind: 1 });
            v.push(Spec { sizes: vec![9], wf: false, sec: 128, rho_inv: 4, kind: 3 });
            v.push(Spec { sizes: vec![12, 3, 40], wf: true, sec: 128, rho_inv: 4, kind: 0 });
            v.push(Spec { sizes: vec![20, 20], wf: false, sec: 32, rho_inv: 2, kind: 0 });
            v.push(Spec { sizes: vec![1, 64, 0, 5], wf: true, sec: 32, rho_inv: 2, kind: 0 });
        }
        Which::Ml | Which::Bd => {
            let top = if thorough { 9 } else if light { 6 } else { 8 };
            for nv in 2..=top {
                for (j, (wf, sec)) in [(true, 128), (false, 128), (true, 32), (false, 32)].iter().enumerate() {
                    if light && !thorough && j >= 2 && nv % 2 == 0 {
                        continue;
                    }
                    v.push(Spec { sizes: vec![nv], wf: *wf, sec: *sec, rho_inv: if which == Which::Ml { [2, 4][j % 2] } else { 0 }, kind: 0 });
                }
            }
            v.push(Spec { sizes: vec![3], wf: true, sec: 128, rho_inv: 2, kind: 1 });
            v.push(Spec { sizes: vec![4], wf: false, sec: 128, rho_inv: 2, kind: 2 });
            v.push(Spec { sizes: vec![5], wf: true, sec: 128, rho_inv: 2, kind: 3 });
            v.push(Spec { sizes: vec![4, 4, 4], wf: true, sec: 128, rho_inv: 2, kind: 0 });
            v.push(Spec { sizes: vec![3, 3], wf: false, sec: 32, rho_inv: 2, kind: 0 });
        }
    }
    v
}

fn all(ctx: &mut Ctx, prop: &str, f: fn(&mut Ctx, &str, &mut Rng, &Spec, Which)) {
    for which in [Which::Uni, Which::Ml, Which::Bd] {
        let name = match which {
            Which::Uni => Uni::NAME,
            Which::Ml => Ml::NAME,
            Which::Bd => Bd::NAME,
        };
        let list = specs(which, prop, ctx.thorough);
        for (i, spec) in list.iter().enumerate() {
            let id = format!("{}/{}/{}", prop, name, i);
            if !ctx.selected(&id) {
                continue;
            }
            let mut rng = rng_for(ctx.seed, &format!("{}/{}", prop, name), i as u64);
            f(ctx, &id, &mut rng, spec, which);
            if ctx.ses.pending.len() >= 40 {
                ctx.flush_model(&format!("{}-{}-{}", prop, name, i));
            }
        }
        ctx.flush_model(&format!("{}-{}", prop, name));
    }
}

macro_rules! dispatch {
    ($which:expr, $f:ident, $($arg:expr),*) => {
        match $which {
            Which::Uni => $f::<Uni>($($arg),*),
            Which::Ml => $f::<Ml>($($arg),*),
            Which::Bd => $f::<Bd>($($arg),*),
        }
    };
}

fn c01_case(ctx: &mut Ctx, id: &str, rng: &mut Rng, spec: &Spec, w: Which) {
    dispatch!(w, c01, ctx, id, rng, spec)
}
fn c02_case(ctx: &mut Ctx, id: &str, rng: &mut Rng, spec: &Spec, w: Which) {
    dispatch!(w, c02, ctx, id, rng, spec)
}
fn c03_case(ctx: &mut Ctx, id: &str, rng: &mut Rng, spec: &Spec, w: Which) {
    dispatch!(w, c03, ctx, id, rng, spec)
}
fn c08_case(ctx: &mut Ctx, id: &str, rng: &mut Rng, spec: &Spec, w: Which) {
    dispatch!(w, c08, ctx, id, rng, spec)
}
fn c10_case(ctx: &mut Ctx, id: &str, rng: &mut Rng, spec: &Spec, w: Which) {
    dispatch!(w, c10, ctx, id, rng, spec)
}
fn c11_case(ctx: &mut Ctx, id: &str, rng: &mut Rng, spec: &Spec, w: Which) {
    dispatch!(w, c11, ctx, id, rng, spec)
}
fn c19_case(ctx: &mut Ctx, id: &str, rng: &mut Rng, spec: &Spec, w: Which) {
    dispatch!(w, c19, ctx, id, rng, spec)
}
fn c17_case(ctx: &mut Ctx, id: &str, rng: &mut Rng, spec: &Spec, w: Which) {
    dispatch!(w, c17_points, ctx, id, rng, spec)
}
fn c13_case(ctx: &mut Ctx, id: &str, rng: &mut Rng, spec: &Spec, w: Which) {
    dispatch!(w, c13_columns, ctx, id, rng, spec)
}

// ------------------------------------------------------------------------------------------------
// generators
// ------------------------------------------------------------------------------------------------

fn gen_vec<S: Lc>(rng: &mut Rng, size: usize, kind: usize) -> Vec<Fr> {
    let len = if S::KIND == 0 { size } else { 1usize << size };
    match kind {
        1 => {
            if S::KIND == 0 {
                vec![]
            } else {
                vec![Fr::zero(); len]
            }
        }
        2 => {
            let c = rand_nonzero(rng);
            if S::KIND == 0 {
                vec![c]
            } else {
                vec![c; len]
            }
        }
        3 => (0..len).map(|i| if i % 5 == 2 || i + 1 == len { rand_nonzero(rng) } else { Fr::zero() }).collect(),
        _ => {
            let mut v: Vec<Fr> = (0..len).map(|_| Fr::rand(rng)).collect();
            if S::KIND == 0 && len > 0 {
                // the leading coefficient is non-zero, so the library keeps exactly `len` coefficients
                let last = len - 1;
                v[last] = rand_nonzero(rng);
            }
            v
        }
    }
}

fn gen_point<S: Lc>(rng: &mut Rng, spec: &Spec) -> Vec<Fr> {
    if S::KIND == 0 {
        vec![Fr::rand(rng)]
    } else {
        (0..spec.sizes[0]).map(|_| Fr::rand(rng)).collect()
    }
}

struct Case<S: Lc> {
    run: Run<S>,
    spec: Spec,
}

fn replay<S: Lc>(id: &str, seed: u64, spec: &Spec, extra: &str) -> String {
    format!(
        "# scheme: {}\n# case: {}\n# seed: {}\n# spec: {:?}\n# {}\n# rerun: .build/cargo/debug/pcv-harness {} --seed {} --only {}\n",
        S::NAME,
        id,
        seed,
        spec,
        extra,
        id.split('/').next().unwrap_or(""),
        seed,
        id
    )
}

fn new_case<S: Lc>(ctx: &mut Ctx, id: &str, rng: &mut Rng, spec: &Spec) -> Option<Case<S>> {
    let pp = match guarded(|| S::params(rng, spec.sizes[0], spec.wf, spec.sec, spec.rho_inv)) {
        Ok(p) => p,
        Err(e) => {
            ctx.rep.expect_fail(id, &format!("{}/in-domain-setup-refused", S::NAME), &format!("parameter construction aborted: {}", e), replay::<S>(id, ctx.seed, spec, &e));
            return None;
        }
    };
    let vecs: Vec<Vec<Fr>> = spec.sizes.iter().enumerate().map(|(i, s)| gen_vec::<S>(rng, *s, if i == 0 { spec.kind } else { 0 })).collect();
    let point = gen_point::<S>(rng, spec);
    let pre = seeded_sponge(rng);
    match honest::<S>(&pp, &vecs, &point, &pre) {
        Ok(run) => {
            ctx.rep.count(&format!("{}/wf-{}", S::NAME, spec.wf));
            ctx.rep.count(&format!("{}/sec-{}", S::NAME, spec.sec));
            ctx.rep.count(&format!("{}/polys-{}", S::NAME, spec.sizes.len()));
            ctx.rep.count(&format!("{}/kind-{}", S::NAME, ["random", "zero", "constant", "sparse"][spec.kind.min(3)]));
            Some(Case { run, spec: spec.clone() })
        }
        Err(e) => {
            ctx.rep.expect_fail(id, &format!("{}/in-domain-refused", S::NAME), &format!("commit/open refused an in-domain request: {}", e), replay::<S>(id, ctx.seed, spec, &e));
            None
        }
    }
}

/// run the real `check`, queue the model's decision, return the outcome
fn decide<S: Lc>(ctx: &mut Ctx, id: &str, pp: &S::Params, comms: &[MComm], point: &[Fr], values: &[Fr], proof: &[MProof], pre: &LogSponge) -> Out {
    let (out, log) = check::<S>(pp, comms, point, values, proof, pre);
    ask_check::<S>(ctx, id, pp, comms, point, values, proof, &log, &out);
    ctx.rep.count(&format!(
        "{}/outcome-{}",
        S::NAME,
        match &out {
            Out::Accept => "accept".to_string(),
            Out::Reject => "ok-false".to_string(),
            Out::Refuse(k) => format!("refuse-{}", k.split(':').next().unwrap_or("")),
        }
    ));
    out
}

// ------------------------------------------------------------------------------------------------
// C01
// ------------------------------------------------------------------------------------------------

fn c01<S: Lc>(ctx: &mut Ctx, id: &str, rng: &mut Rng, spec: &Spec) {
    let c = match new_case::<S>(ctx, id, rng, spec) {
        Some(c) => c,
        None => return,
    };
    let run = &c.run;
    let out = decide::<S>(ctx, &format!("{}/check", id), &run.pp, &run.comms, &run.point, &run.values, &run.proof, &run.pre);
    if !out.accepted() {
        ctx.rep.expect_fail(id, &format!("{}/honest-rejected", S::NAME), &format!("honest proof not accepted: {:?}", out), replay::<S>(id, ctx.seed, spec, &describe(run)));
    }
    ask_open::<S>(ctx, id, run);
    for (i, (cm, st)) in run.comms.iter().zip(&run.states).enumerate() {
        let (n, m) = (cm.metadata.n_rows, cm.metadata.n_cols);
        ask_tensor::<S>(ctx, &format!("{}/{}", id, i), &run.point, m, n);
        // direct ties between the real code and the statements of the theorems
        if let Ok((a, b)) = tensor::<S>(&run.point, m, n) {
            let p = &run.proof[i];
            if inner(&p.opening.v, &a) != run.values[i] {
                ctx.rep.expect_fail(id, &format!("{}/tensor-eval-mismatch", S::NAME), "<v, a> differs from the polynomial's evaluation", replay::<S>(id, ctx.seed, spec, &describe(run)));
            }
            let bm: Vec<Fr> = (0..m).map(|j| (0..n).map(|r| b[r] * st.mat.entries[r][j]).sum()).collect();
            if bm != p.opening.v {
                ctx.rep.expect_fail(id, &format!("{}/v-not-b-times-M", S::NAME), "opening.v differs from b*M", replay::<S>(id, ctx.seed, spec, &describe(run)));
            }
            // the flat coefficient vector is the row-major matrix, zero padded
            let flat: Vec<Fr> = st.mat.entries.iter().flatten().cloned().collect();
            let mut want = S::L::poly_to_vec(run.polys[i].polynomial());
            if want.is_empty() {
                want.push(Fr::zero());
            }
            want.resize(n * m, Fr::zero());
            if flat != want || st.mat.n != n || st.mat.m != m {
                ctx.rep.expect_fail(id, &format!("{}/matrix-not-row-major", S::NAME), "state matrix differs from the zero-padded row-major coefficient matrix", replay::<S>(id, ctx.seed, spec, &describe(run)));
            }
        }
    }
    ctx.rep.case(&describe(run), Some(format!("{}/{:?}/{}/{}/{}", S::NAME, spec.sizes, spec.wf, spec.sec, spec.kind)));
}


// ------------------------------------------------------------------------------------------------
// C11: event logs of open / check / default batch_open / batch_check against the transcript model
// ------------------------------------------------------------------------------------------------

fn c11<S: Lc>(ctx: &mut Ctx, id: &str, rng: &mut Rng, spec: &Spec) {
    use ark_crypto_primitives::sponge::CryptographicSponge;
    use ark_poly::Polynomial;
    use ark_poly_commit::{Evaluations, PolynomialCommitment, QuerySet};
    let c = match new_case::<S>(ctx, id, rng, spec) {
        Some(c) => c,
        None => return,
    };
    let run = &c.run;
    let k = run.comms.len();
    let fail = |ctx: &mut Ctx, sig: &str, what: &str| {
        ctx.rep.expect_fail(id, &format!("{}/{}", S::NAME, sig), what, replay::<S>(id, ctx.seed, spec, &describe(run)));
    };
    // ---- operation 1: `open` of all polynomials at one point (done by `new_case` on `run.pre`)
    let req = state_args(comm_args(transcript_req::<S>(0, &run.pp, &run.comms, &run.open_log).arg("point", crate::wire::fes(&run.point)).arg("n", crate::wire::nat(k)), &run.comms, false), &run.states);
    ask_transcript(ctx, &format!("{}/open", id), req, &run.open_log,
        vec![("k".into(), Expect::Nat(run.proof.len())),
             ("vs".into(), Expect::Raw(crate::wire::fess(&run.proof.iter().map(|p| p.opening.v.clone()).collect::<Vec<_>>()))),
             ("leafidx".into(), Expect::Raw(crate::wire::Val::L(run.proof.iter().map(|p| crate::wire::nats(&p.opening.paths.iter().map(|q| q.leaf_index).collect::<Vec<_>>())).collect())))], None);
    let check_req = |log: &LogSponge| {
        let mut req = comm_args(transcript_req::<S>(1, &run.pp, &run.comms, log).arg("point", crate::wire::fes(&run.point)), &run.comms, false)
            .arg("ncomm", crate::wire::nat(k))
            .arg("nval", crate::wire::nat(run.values.len()))
            .arg("nproof", crate::wire::nat(run.proof.len()));
        for (i, v) in run.values.iter().enumerate() {
            req = req.arg(&format!("value_{}", i), crate::wire::fe(v));
        }
        for (i, p) in run.proof.iter().enumerate() {
            req = proof_args::<S>(req, &run.pp, i, p, &run.comms[i.min(k - 1)].root, false);
        }
        req
    };
    let (out, vlog) = check::<S>(&run.pp, &run.comms, &run.point, &run.values, &run.proof, &run.pre);
    ask_transcript(ctx, &format!("{}/check", id), check_req(&vlog), &vlog, vec![("b".into(), Expect::Bool(out.accepted()))],
        if let Out::Refuse(r) = &out { Some(r.clone()) } else { None });
    if !out.accepted() {
        fail(ctx, "history-rejected/open", &format!("honest proof not accepted on the prover's transcript: {:?}", out));
    } else if run.open_log.log != vlog.log || run.open_log.probe() != vlog.probe() {
        fail(ctx, "sponge-diverged/open", &format!("prover events [{}] differ from verifier events [{}] (or the next squeeze differs)", run.open_log.shape(), vlog.shape()));
    }
    // ---- the same proof checked on a sponge with another pre-state (displaced)
    let mut other = LogSponge::fresh();
    other.absorb(&Fr::from(77u64));
    other.absorb(&Fr::rand(rng));
    other.log.clear();
    let (outd, dlog) = check::<S>(&run.pp, &run.comms, &run.point, &run.values, &run.proof, &other);
    ask_transcript(ctx, &format!("{}/displaced", id), check_req(&dlog), &dlog, vec![("b".into(), Expect::Bool(outd.accepted()))],
        if let Out::Refuse(r) = &outd { Some(r.clone()) } else { None });
    if outd.accepted() && spec.wf {
        fail(ctx, "accepted-on-other-transcript/pre-state", "proof accepted against a sponge with different prior absorbs (well-formedness check on)");
    }
    ctx.rep.count(&format!("{}/displaced-{}", S::NAME, match &outd { Out::Accept => "accepted", Out::Reject => "ok-false", Out::Refuse(_) => "refused" }));

    // ---- operation 2 on the SAME sponges: default batch_open / batch_check over two point labels
    let z2 = gen_point::<S>(rng, spec);
    let mut qs: QuerySet<<S::P as Polynomial<Fr>>::Point> = QuerySet::new();
    let mut evs: Evaluations<<S::P as Polynomial<Fr>>::Point, Fr> = Evaluations::new();
    let mut qs_val = vec![];
    let mut ev_val = vec![];
    let mut order: Vec<(String, usize)> = vec![];
    for (j, lp) in run.polys.iter().enumerate() {
        let mut add = |pl: &str, z: &Vec<Fr>| {
            let pt = S::point(z);
            let v = lp.polynomial().evaluate(&pt);
            qs.insert((lp.label().clone(), (pl.to_string(), pt.clone())));
            evs.insert((lp.label().clone(), pt), v);
            qs_val.push(crate::wire::Val::L(vec![crate::wire::label(lp.label()), crate::wire::label(pl), crate::wire::fes(z)]));
            ev_val.push(crate::wire::Val::L(vec![crate::wire::label(lp.label()), crate::wire::fes(z), crate::wire::fe(&v)]));
            order.push((pl.to_string(), j));
        };
        add("a", &run.point);
        if j == 0 || j + 1 == k {
            add("b", &z2);
        }
    }
    order.sort_by(|x, y| (x.0.clone(), label(x.1)).cmp(&(y.0.clone(), label(y.1))));
    let lcomms = real_comms::<S>(&run.comms);
    let mut sp_p = run.open_log.clone();
    sp_p.log.clear();
    let mut sp_v = vlog.clone();
    sp_v.log.clear();
    let bproof = match guarded(|| S::PC::batch_open(&run.pp, run.polys.iter(), lcomms.iter(), &qs, &mut sp_p, run.real_states.iter(), None)) {
        Ok(Ok(p)) => p,
        Ok(Err(e)) => {
            fail(ctx, "in-domain-refused/batch-open", &format!("batch_open refused an in-domain request: {}", err_kind(&e)));
            return;
        }
        Err(a) => {
            fail(ctx, "in-domain-refused/batch-open", &format!("batch_open aborted on an in-domain request: {}", a));
            return;
        }
    };
    let flat: Vec<MProof> = bproof.iter().flatten().map(|p| conv::<ark_poly_commit::linear_codes::LinCodePCProof<Fr, crate::generic::MTConfig>, MProof>(p)).collect();
    let req = state_args(comm_args(transcript_req::<S>(2, &run.pp, &run.comms, &sp_p).arg("n", crate::wire::nat(k)), &run.comms, true), &run.states)
        .arg("qs", crate::wire::Val::L(qs_val.clone()));
    ask_transcript(ctx, &format!("{}/batch-open", id), req, &sp_p, vec![("groups".into(), Expect::Nats(bproof.iter().map(|g| g.len()).collect()))], None);
    let mut vrng = rng.clone();
    let bres = guarded(|| S::PC::batch_check(&run.pp, lcomms.iter(), &qs, &evs, &bproof, &mut sp_v, &mut vrng));
    let (bacc, brefuse, bdetail) = match &bres {
        Ok(Ok(b)) => (*b, None, format!("Ok({})", b)),
        Ok(Err(e)) => (false, Some(err_kind(e)), format!("Err({})", err_kind(e))),
        Err(a) => (false, Some(a.clone()), a.clone()),
    };
    if flat.len() == order.len() {
        let mut req = comm_args(transcript_req::<S>(3, &run.pp, &run.comms, &sp_v), &run.comms, true)
            .arg("ncomm", crate::wire::nat(k))
            .arg("nproof", crate::wire::nat(flat.len()))
            .arg("qs", crate::wire::Val::L(qs_val))
            .arg("evals", crate::wire::Val::L(ev_val))
            .arg("pk", crate::wire::nats(&bproof.iter().map(|g| g.len()).collect::<Vec<_>>()));
        for (t, p) in flat.iter().enumerate() {
            req = proof_args::<S>(req, &run.pp, t, p, &run.comms[order[t].1].root, true);
        }
        ask_transcript(ctx, &format!("{}/batch-check", id), req, &sp_v, vec![("b".into(), Expect::Bool(bacc))], brefuse);
    } else {
        fail(ctx, "batch-proof-count", &format!("batch_open returned {} proofs for {} (point label, polynomial) pairs", flat.len(), order.len()));
    }
    if !bacc {
        fail(ctx, "history-rejected/batch", &format!("honest batch proof not accepted on the prover's transcript: {}", bdetail));
    } else if sp_p.log != sp_v.log || sp_p.probe() != sp_v.probe() {
        fail(ctx, "sponge-diverged/batch", &format!("prover events [{}] differ from verifier events [{}] (or the next squeeze differs)", sp_p.shape(), sp_v.shape()));
    }
    ctx.rep.case(&format!("{} lock-step: open + batch over 2 point labels, event logs vs model", describe(run)),
        Some(format!("{}/c11/{:?}/{}/{}", S::NAME, spec.sizes, spec.wf, spec.sec)));
}


// ------------------------------------------------------------------------------------------------
// C09: what `setup` installs and reports, `trim` hands out the parameters
// ------------------------------------------------------------------------------------------------

fn c09(ctx: &mut Ctx) {
    use crate::generic::{BrakedownPC, MlLigeroPC, UniLigeroPC};
    use crate::wire::{self, Req};
    use ark_ff::FftField;
    use ark_poly_commit::{PCCommitterKey, PCUniversalParams, PCVerifierKey, PolynomialCommitment};
    fn bytes<T: CanonicalSerialize>(x: &T) -> Vec<u8> {
        let mut b = vec![];
        x.serialize_uncompressed(&mut b).unwrap();
        b
    }
    let degrees: Vec<usize> = if ctx.thorough { vec![0, 1, 2, 17, 64, 1000, 1 << 20, 1 << 56, (1 << 56) + 1, usize::MAX] } else { vec![0, 1, 17, 1 << 56, (1 << 56) + 1, usize::MAX] };
    for (i, d) in degrees.iter().enumerate() {
        for scheme in 0..3usize {
            let name = ["uni-ligero", "ml-ligero", "brakedown"][scheme];
            let id = format!("C09/lincode-setup/{}/{}", name, i);
            if !ctx.selected(&id) {
                continue;
            }
            let mut rng = rng_for(ctx.seed, "C09/lincode-setup", (i * 3 + scheme) as u64);
            let rp = |what: &str| format!("# scheme: {}\n# case: {}\n# seed: {}\n# setup(max_degree = {})\n# {}\n# rerun: .build/cargo/debug/pcv-harness C09 --seed {} --only {}\n", name, id, ctx.seed, d, what, ctx.seed, id);
            let req = Req::new("lincode.setup")
                .arg("scheme", wire::nat(scheme))
                .arg("s", wire::nat(Fr::TWO_ADICITY as usize))
                .arg("degree", wire::nat(*d));
            // (sec, distance, wf, max_degree report, ck == pp == vk) of the real setup + trim
            let obs: Result<(usize, (usize, usize), bool, usize, bool), String> = match scheme {
                0 => match guarded(|| UniLigeroPC::setup(*d, None, &mut rng)) {
                    Ok(Ok(pp)) => match guarded(|| UniLigeroPC::trim(&pp, *d, 0, None)) {
                        Ok(Ok((ck, vk))) => Ok((ck.sec_param(), vk.distance(), ck.check_well_formedness(), PCUniversalParams::max_degree(&pp),
                            bytes(&ck) == bytes(&pp) && bytes(&vk) == bytes(&pp) && PCCommitterKey::max_degree(&ck) == PCUniversalParams::max_degree(&pp) && PCVerifierKey::supported_degree(&vk) == PCUniversalParams::max_degree(&pp))),
                        Ok(Err(e)) => Err(err_kind(&e)),
                        Err(a) => Err(a),
                    },
                    Ok(Err(e)) => Err(err_kind(&e)),
                    Err(a) => Err(a),
                },
                1 => match guarded(|| MlLigeroPC::setup(*d, Some(4), &mut rng)) {
                    Ok(Ok(pp)) => match guarded(|| MlLigeroPC::trim(&pp, *d, 0, None)) {
                        Ok(Ok((ck, vk))) => Ok((ck.sec_param(), vk.distance(), ck.check_well_formedness(), PCUniversalParams::max_degree(&pp),
                            bytes(&ck) == bytes(&pp) && bytes(&vk) == bytes(&pp) && PCCommitterKey::max_degree(&ck) == PCUniversalParams::max_degree(&pp) && PCVerifierKey::supported_degree(&vk) == PCUniversalParams::max_degree(&pp))),
                        Ok(Err(e)) => Err(err_kind(&e)),
                        Err(a) => Err(a),
                    },
                    Ok(Err(e)) => Err(err_kind(&e)),
                    Err(a) => Err(a),
                },
                _ => match guarded(|| BrakedownPC::setup(*d, Some(4), &mut rng)) {
                    Ok(Ok(pp)) => match guarded(|| BrakedownPC::trim(&pp, *d, 0, None)) {
                        Ok(Ok((ck, vk))) => Ok((128, (3, 4), true, PCUniversalParams::max_degree(&pp),
                            bytes(&ck) == bytes(&pp) && bytes(&vk) == bytes(&pp) && ck.check_well_formedness() && ck.sec_param() == 128 && PCCommitterKey::max_degree(&ck) == usize::MAX && PCVerifierKey::supported_degree(&vk) == usize::MAX)),
                        Ok(Err(e)) => Err(err_kind(&e)),
                        Err(a) => Err(a),
                    },
                    Ok(Err(e)) => Err(err_kind(&e)),
                    Err(a) => Err(a),
                },
            };
            match &obs {
                Ok((sec, dist, wf, max, same)) => {
                    ctx.ses.ask(&id, req, ImplOutcome::Ok(vec![
                        ("max".into(), Expect::Nat(*max)),
                        ("sec".into(), Expect::Nat(*sec)),
                        ("wf".into(), Expect::Bool(*wf)),
                        ("d0".into(), Expect::Nat(dist.0)),
                        ("d1".into(), Expect::Nat(dist.1)),
                        ("same".into(), Expect::Bool(*same)),
                    ]));
                    if *d > *max {
                        ctx.rep.expect_fail(&id, &format!("{}/setup-beyond-report", name), "setup answered a degree above its own max_degree() report", rp("over-reported"));
                    }
                    if !*same {
                        ctx.rep.expect_fail(&id, &format!("{}/trim-not-faithful", name), "trim did not hand out the parameters (or the degree reports of the keys differ from the parameters')", rp("trim"));
                    }
                }
                Err(e) => {
                    ctx.ses.ask(&id, req, ImplOutcome::Refuse(e.clone()));
                }
            }
            ctx.rep.count(&format!("lincode-setup/{}/{}", name, if obs.is_ok() { "answered" } else { "refused" }));
            ctx.rep.case(&format!("{} setup(max_degree={}) -> {:?}", name, d, obs.as_ref().map(|o| o.3)), Some(format!("lincode-setup/{}/{}", name, d)));
        }
    }
    ctx.flush_model("C09-lincode");
}


/// `PCV_C11_PROBE=1`: search for a displaced proof of a NON-constant polynomial that is accepted
/// (univariate Ligero, inverse rate 2, well-formedness check off, two coefficients: a `2 × 1` matrix,
/// codeword length 2, both columns opened) and print the input.
fn probe_displaced_tiny() {
    use ark_crypto_primitives::sponge::CryptographicSponge;
    let pp = Uni::params(&mut rng_for(0, "probe", 0), 0, false, 128, 2);
    let coeffs = vec![Fr::from(3u64), Fr::from(5u64)];
    let point = vec![Fr::from(7u64)];
    let mut hits = 0;
    for a in 0..40u64 {
        let mut pre = LogSponge::fresh();
        pre.absorb(&Fr::from(a));
        pre.log.clear();
        let run = match honest::<Uni>(&pp, &[coeffs.clone()], &point, &pre) {
            Ok(r) => r,
            Err(e) => {
                eprintln!("probe: honest run refused: {}", e);
                return;
            }
        };
        for b in 100..140u64 {
            let mut other = LogSponge::fresh();
            other.absorb(&Fr::from(b));
            other.log.clear();
            let (out, log) = check::<Uni>(&run.pp, &run.comms, &run.point, &run.values, &run.proof, &other);
            if out.accepted() {
                hits += 1;
                if hits <= 3 {
                    eprintln!(
                        "probe: p(X) = 3 + 5X, z = 7, LigeroPCParams::new(128, 2, false): proof made on a fresh Poseidon sponge after absorb(Fr::from({})) \
is ACCEPTED by check on a fresh sponge after absorb(Fr::from({})); shape {:?}, prover positions {:?}, verifier squeezed bytes {:?}",
                        a, b, (run.comms[0].metadata.n_rows, run.comms[0].metadata.n_cols, run.comms[0].metadata.n_ext_cols),
                        run.proof[0].opening.paths.iter().map(|q| q.leaf_index).collect::<Vec<_>>(), log.squeezed_bytes());
                }
            }
        }
    }
    eprintln!("probe: {} of 1600 (prover pre-state, verifier pre-state) pairs accepted", hits);
}

// ------------------------------------------------------------------------------------------------
// C02
// ------------------------------------------------------------------------------------------------

fn false_accept<S: Lc>(ctx: &mut Ctx, id: &str, spec: &Spec, sig: &str, what: &str, out: &Out, claim_false: bool) {
    if claim_false && out.accepted() {
        ctx.rep.expect_fail(id, &format!("lincode/{}/{}", sig, S::NAME), what, replay::<S>(id, ctx.seed, spec, what));
    }
}

fn c02<S: Lc>(ctx: &mut Ctx, id: &str, rng: &mut Rng, spec: &Spec) {
    let c = match new_case::<S>(ctx, id, rng, spec) {
        Some(c) => c,
        None => return,
    };
    let run = &c.run;
    let k = run.values.len();
    // value + delta at every position
    for j in 0..k {
        let mut vals = run.values.clone();
        vals[j] += rand_nonzero(rng);
        let cid = format!("{}/value{}", id, j);
        let out = decide::<S>(ctx, &cid, &run.pp, &run.comms, &run.point, &vals, &run.proof, &run.pre);
        false_accept::<S>(ctx, &cid, spec, "false-claim-accepted/value", "honest proof accepted for value + delta", &out, true);
        if out != Out::Reject && j == 0 {
            // the property's stronger form: the value test is direct, the answer is Ok(false)
            ctx.rep.count(&format!("{}/value-refused-not-false", S::NAME));
        }
        ctx.rep.case(&format!("{} value+delta at {}", describe(run), j), Some(format!("{}/value/{:?}/{}", S::NAME, spec.sizes, spec.wf)));
    }
    // another point: true values there, and the old values
    let point2: Vec<Fr> = run.point.iter().map(|x| *x + rand_nonzero(rng)).collect();
    let pt2 = S::point(&point2);
    use ark_poly::Polynomial;
    let vals2: Vec<Fr> = run.polys.iter().map(|p| p.polynomial().evaluate(&pt2)).collect();
    let cid = format!("{}/point-true", id);
    let _ = decide::<S>(ctx, &cid, &run.pp, &run.comms, &point2, &vals2, &run.proof, &run.pre);
    let cid = format!("{}/point-old-values", id);
    let out = decide::<S>(ctx, &cid, &run.pp, &run.comms, &point2, &run.values, &run.proof, &run.pre);
    false_accept::<S>(ctx, &cid, spec, "false-claim-accepted/point", "proof for z accepted at z' with the values at z", &out, vals2 != run.values);
    ctx.rep.case(&format!("{} other point", describe(run)), Some(format!("{}/point/{:?}/{}", S::NAME, spec.sizes, spec.wf)));
    // commitment of another polynomial of the same shape
    let mut vecs2 = run.vecs.clone();
    let j = range(rng, 0, k - 1);
    vecs2[j] = gen_vec::<S>(rng, spec.sizes[j], 0);
    if let Ok(run2) = honest::<S>(&run.pp, &vecs2, &run.point, &run.pre) {
        let mut comms = run.comms.clone();
        comms[j] = run2.comms[j].clone();
        let cid = format!("{}/comm-other-poly", id);
        let out = decide::<S>(ctx, &cid, &run.pp, &comms, &run.point, &run.values, &run.proof, &run.pre);
        false_accept::<S>(ctx, &cid, spec, "false-claim-accepted/commitment", "proof for p accepted against a commitment to q with p(z) as value", &out, run2.values[j] != run.values[j]);
        let cid = format!("{}/comm-other-poly-its-value", id);
        let mut vals = run.values.clone();
        vals[j] = run2.values[j];
        let out = decide::<S>(ctx, &cid, &run.pp, &comms, &run.point, &vals, &run.proof, &run.pre);
        // a true claim about q, but the proof is for p: accepted only if the trees coincide
        if out.accepted() && comms[j].root != run.comms[j].root {
            ctx.rep.expect_fail(&cid, &format!("lincode/proof-for-other-commitment-accepted/{}", S::NAME), "proof for p accepted for a different commitment", replay::<S>(&cid, ctx.seed, spec, ""));
        }
        ctx.rep.case(&format!("{} other commitment at {}", describe(run), j), Some(format!("{}/comm/{:?}/{}", S::NAME, spec.sizes, spec.wf)));
    }
}

// ------------------------------------------------------------------------------------------------
// C03 / C10 mutation catalogue
// ------------------------------------------------------------------------------------------------

#[derive(Clone, Copy, Debug, PartialEq, Eq)]
enum Mu {
    VShort,
    VLong,
    VEntry,
    VEmpty,
    WfShort,
    WfLong,
    WfAbsent,
    WfToggleWhenOff,
    WfEntry,
    ColsRepeat,
    ColsShift,
    ColsFewer,
    ColsMore,
    ColsNone,
    ColEntry,
    ColShorter,
    PathsFewer,
    PathsMore,
    PathsNone,
    LeafIndex,
    LeafSibling,
    AuthSibling,
    AuthShorter,
    PathOtherLeaf,
    PathOtherLeafReindexed,
    PathOtherTree,
    PathsSwapped,
    ProofsFewer,
    ProofsMore,
}
const SHAPE: &[Mu] = &[
    Mu::VShort, Mu::VLong, Mu::VEmpty, Mu::WfShort, Mu::WfLong, Mu::WfAbsent, Mu::WfToggleWhenOff, Mu::ColsRepeat, Mu::ColsShift,
    Mu::ColsFewer, Mu::ColsMore, Mu::ColsNone, Mu::ColShorter, Mu::PathsFewer, Mu::PathsMore, Mu::PathsNone, Mu::ProofsFewer, Mu::ProofsMore,
];
const PATHS: &[Mu] = &[Mu::LeafIndex, Mu::LeafSibling, Mu::AuthSibling, Mu::AuthShorter, Mu::PathOtherLeaf, Mu::PathOtherLeafReindexed, Mu::PathOtherTree, Mu::PathsSwapped];
const ENTRIES: &[Mu] = &[Mu::VEntry, Mu::WfEntry, Mu::ColEntry];

fn flip(d: &mut Vec<u8>) {
    if d.is_empty() {
        d.push(1);
    } else {
        d[0] ^= 1;
    }
}

/// Apply one mutation to polynomial `k`'s proof. `other` = an honest run on other polynomials of the
/// same shapes (for paths from another tree). None = not applicable to this transcript.
fn mutate<S: Lc>(rng: &mut Rng, run: &Run<S>, other: Option<&Run<S>>, k: usize, m: Mu) -> Option<Vec<MProof>> {
    let mut proof = run.proof.clone();
    let wf_on = run.pp.check_well_formedness();
    let n_ext = run.comms[k].metadata.n_ext_cols;
    {
        let p = &mut proof[k];
        let t = p.opening.columns.len();
        match m {
            Mu::VShort => {
                p.opening.v.pop()?;
            }
            Mu::VLong => p.opening.v.push(Fr::zero()),
            Mu::VEmpty => {
                if p.opening.v.is_empty() {
                    return None;
                }
                p.opening.v.clear()
            }
            Mu::VEntry => {
                let i = range(rng, 0, p.opening.v.len().checked_sub(1)?);
                p.opening.v[i] += rand_nonzero(rng);
            }
            Mu::WfShort => {
                p.well_formedness.as_mut()?.pop()?;
            }
            Mu::WfLong => p.well_formedness.as_mut()?.push(Fr::zero()),
            Mu::WfAbsent => {
                p.well_formedness.as_ref()?;
                p.well_formedness = None
            }
            Mu::WfToggleWhenOff => {
                if wf_on {
                    return None;
                }
                p.well_formedness = Some((0..range(rng, 0, 3)).map(|_| Fr::rand(rng)).collect());
            }
            Mu::WfEntry => {
                let w = p.well_formedness.as_mut()?;
                let i = range(rng, 0, w.len().checked_sub(1)?);
                w[i] += rand_nonzero(rng);
            }
            Mu::ColsRepeat => {
                if t < 2 {
                    return None;
                }
                let i = range(rng, 1, t - 1);
                if p.opening.columns[i] == p.opening.columns[0] {
                    return None;
                }
                p.opening.columns[i] = p.opening.columns[0].clone();
            }
            Mu::ColsShift => {
                if t < 2 {
                    return None;
                }
                p.opening.columns.rotate_left(1);
                if p.opening.columns == run.proof[k].opening.columns {
                    return None;
                }
            }
            Mu::ColsFewer => {
                p.opening.columns.pop()?;
            }
            Mu::ColsMore => {
                let c = p.opening.columns.first()?.clone();
                p.opening.columns.push(c)
            }
            Mu::ColsNone => {
                if t == 0 {
                    return None;
                }
                p.opening.columns.clear()
            }
            Mu::ColEntry => {
                let i = range(rng, 0, t.checked_sub(1)?);
                let j = range(rng, 0, p.opening.columns[i].len().checked_sub(1)?);
                p.opening.columns[i][j] += rand_nonzero(rng);
            }
            Mu::ColShorter => {
                let i = range(rng, 0, t.checked_sub(1)?);
                p.opening.columns[i].pop()?;
            }
            Mu::PathsFewer => {
                p.opening.paths.pop()?;
            }
            Mu::PathsMore => {
                let c = p.opening.paths.first()?.clone();
                p.opening.paths.push(c)
            }
            Mu::PathsNone => {
                if p.opening.paths.is_empty() {
                    return None;
                }
                p.opening.paths.clear()
            }
            Mu::LeafIndex => {
                let i = range(rng, 0, p.opening.paths.len().checked_sub(1)?);
                p.opening.paths[i].leaf_index ^= 1;
            }
            Mu::LeafSibling => {
                let i = range(rng, 0, p.opening.paths.len().checked_sub(1)?);
                flip(&mut p.opening.paths[i].leaf_sibling_hash);
            }
            Mu::AuthSibling => {
                let i = range(rng, 0, p.opening.paths.len().checked_sub(1)?);
                let l = p.opening.paths[i].auth_path.len();
                let j = range(rng, 0, l.checked_sub(1)?);
                flip(&mut p.opening.paths[i].auth_path[j]);
            }
            Mu::AuthShorter => {
                let i = range(rng, 0, p.opening.paths.len().checked_sub(1)?);
                p.opening.paths[i].auth_path.pop()?;
            }
            Mu::PathOtherLeaf | Mu::PathOtherLeafReindexed => {
                // the valid path of a different leaf of the same tree
                let i = range(rng, 0, p.opening.paths.len().checked_sub(1)?);
                let here = p.opening.paths[i].leaf_index;
                let there = (here + 1 + range(rng, 0, n_ext.checked_sub(2)?)) % n_ext;
                let tree = tree_of(&run.states[k].leaves);
                let mut q: Path<crate::generic::MTConfig> = tree.generate_proof(there).ok()?;
                if m == Mu::PathOtherLeafReindexed {
                    q.leaf_index = here;
                    if run.states[k].leaves[here] == run.states[k].leaves[there] && q.leaf_sibling_hash == p.opening.paths[i].leaf_sibling_hash && q.auth_path == p.opening.paths[i].auth_path {
                        return None;
                    }
                }
                p.opening.paths[i] = q;
            }
            Mu::PathOtherTree => {
                let o = other?;
                if o.comms[k].root == run.comms[k].root {
                    return None;
                }
                let tree = tree_of(&o.states[k].leaves);
                for q in p.opening.paths.iter_mut() {
                    *q = tree.generate_proof(q.leaf_index).ok()?;
                }
                if p.opening.paths.is_empty() {
                    return None;
                }
            }
            Mu::PathsSwapped => {
                let l = p.opening.paths.len();
                if l < 2 {
                    return None;
                }
                let j = (1..l).find(|j| p.opening.paths[*j].leaf_index != p.opening.paths[0].leaf_index)?;
                p.opening.paths.swap(0, j);
            }
            Mu::ProofsFewer | Mu::ProofsMore => {}
        }
    }
    match m {
        Mu::ProofsFewer => {
            proof.pop()?;
        }
        Mu::ProofsMore => {
            let c = proof.first()?.clone();
            proof.push(c)
        }
        _ => {}
    }
    Some(proof)
}

/// does the mutation leave a proof the verifier is allowed to accept for the *true* values?
/// (extra trailing columns / paths / proofs and an unread well-formedness vector are never looked at)
fn harmless(m: Mu) -> bool {
    matches!(m, Mu::ColsMore | Mu::PathsMore | Mu::ProofsMore | Mu::WfToggleWhenOff)
}

fn other_run<S: Lc>(rng: &mut Rng, run: &Run<S>, spec: &Spec) -> Option<Run<S>> {
    let vecs2: Vec<Vec<Fr>> = spec.sizes.iter().map(|s| gen_vec::<S>(rng, *s, 0)).collect();
    honest::<S>(&run.pp, &vecs2, &run.point, &run.pre).ok()
}

fn c03<S: Lc>(ctx: &mut Ctx, id: &str, rng: &mut Rng, spec: &Spec) {
    let c = match new_case::<S>(ctx, id, rng, spec) {
        Some(c) => c,
        None => return,
    };
    let run = &c.run;
    let other = other_run::<S>(rng, run, spec);
    let np = run.proof.len();
    // (i) corrupted Merkle paths with an otherwise honest proof: must be refused (D5), also for the
    // true values
    for m in PATHS {
        let k = range(rng, 0, np - 1);
        let proof = match mutate::<S>(rng, run, other.as_ref(), k, *m) {
            Some(p) => p,
            None => continue,
        };
        let cid = format!("{}/path-{:?}", id, m);
        let out = decide::<S>(ctx, &cid, &run.pp, &run.comms, &run.point, &run.values, &proof, &run.pre);
        if out.accepted() {
            ctx.rep.expect_fail(&cid, &format!("lincode/bad-path-accepted/{}/{:?}", S::NAME, m), "a Merkle path that does not authenticate the opened column at the transcript position was accepted", replay::<S>(&cid, ctx.seed, spec, &describe(run)));
        }
        ctx.rep.case(&format!("{} path mutation {:?}", describe(run), m), Some(format!("{}/path/{:?}/{:?}/{}", S::NAME, m, spec.sizes, spec.wf)));
    }
    // (i') the forgery D5 allowed: fabricated columns consistent with E(v'), honest paths
    d5_forgery::<S>(ctx, id, rng, spec, run);
    // (i'') a point with the wrong number of coordinates (D23)
    wrong_point_length_forgery::<S>(ctx, id, rng, spec, run);
    // (i-4) value and well-formedness vector moved in opposite directions
    merged_equations_forgery::<S>(ctx, id, rng, spec, run);
    // (ii) the stretched-vector forgery of D6 (Reed–Solomon encoders)
    if S::NAME != Bd::NAME {
        d6_forgery::<S>(ctx, id, rng, spec, run);
    }
    // (ii') tampered commitment metadata (honest root, other n_ext_cols / n_rows / n_cols)
    metadata_tamper::<S>(ctx, id, rng, spec, run);
    // (iii) shapes and entries, for a false and for the true value
    for m in SHAPE.iter().chain(ENTRIES) {
        let k = range(rng, 0, np - 1);
        let proof = match mutate::<S>(rng, run, other.as_ref(), k, *m) {
            Some(p) => p,
            None => continue,
        };
        let mut vals = run.values.clone();
        let j = range(rng, 0, vals.len() - 1);
        vals[j] += rand_nonzero(rng);
        let cid = format!("{}/shape-{:?}-false", id, m);
        let out = decide::<S>(ctx, &cid, &run.pp, &run.comms, &run.point, &vals, &proof, &run.pre);
        false_accept::<S>(ctx, &cid, spec, &format!("false-claim-accepted/shape-{:?}", m), "malformed proof accepted for a false value", &out, true);
        let cid = format!("{}/shape-{:?}-true", id, m);
        let out = decide::<S>(ctx, &cid, &run.pp, &run.comms, &run.point, &run.values, &proof, &run.pre);
        if out.accepted() && !harmless(*m) {
            // v / wf / columns are bound by the transcript and the column tests
            ctx.rep.expect_fail(&cid, &format!("lincode/malformed-accepted/{}/{:?}", S::NAME, m), "a proof with a changed component was accepted", replay::<S>(&cid, ctx.seed, spec, &describe(run)));
        }
        ctx.rep.case(&format!("{} shape mutation {:?}", describe(run), m), Some(format!("{}/shape/{:?}/{:?}/{}", S::NAME, m, spec.sizes, spec.wf)));
    }
}

/// C13: the verifier insists on EXACTLY t authenticated columns at the transcript positions — an honest
/// proof (true values!) with columns or paths removed, added, repeated or shifted is not accepted.
fn c13_columns<S: Lc>(ctx: &mut Ctx, id: &str, rng: &mut Rng, spec: &Spec) {
    let c = match new_case::<S>(ctx, id, rng, spec) {
        Some(c) => c,
        None => return,
    };
    let run = &c.run;
    let other = other_run::<S>(rng, run, spec);
    let np = run.proof.len();
    for m in [Mu::ColsFewer, Mu::ColsNone, Mu::ColsMore, Mu::ColsRepeat, Mu::ColsShift, Mu::PathsFewer, Mu::PathsNone, Mu::PathsMore] {
        let k = range(rng, 0, np - 1);
        let proof = match mutate::<S>(rng, run, other.as_ref(), k, m) {
            Some(p) => p,
            None => continue,
        };
        let cid = format!("{}/columns-{:?}", id, m);
        let out = decide::<S>(ctx, &cid, &run.pp, &run.comms, &run.point, &run.values, &proof, &run.pre);
        if out.accepted() && !harmless(m) {
            ctx.rep.expect_fail(&cid, &format!("lincode/column-count-not-enforced/{}/{:?}", S::NAME, m),
                "a proof that does not carry exactly t columns with their paths at the transcript positions was accepted",
                replay::<S>(&cid, ctx.seed, spec, &describe(run)));
        }
        ctx.rep.case(&format!("{} column mutation {:?}", describe(run), m), Some(format!("{}/columns/{:?}/{:?}/{}", S::NAME, m, spec.sizes, spec.wf)));
    }
    repeated_slot_tamper::<S>(ctx, id, spec, run);
    all_slots_from_first::<S>(ctx, id, spec, run);
}

/// Every slot of the opening overwritten with slot 0 (its column AND its path): one authenticated position
/// repeated t times.  For a constant codeword (constant polynomials) the inner-product tests cannot tell, only
/// the comparison of each path's leaf index with ITS OWN transcript position can.
fn all_slots_from_first<S: Lc>(ctx: &mut Ctx, id: &str, spec: &Spec, run: &Run<S>) {
    let cid = format!("{}/all-slots-from-first", id);
    let p0 = &run.proof[0];
    let c = &run.comms[0];
    let (_r, idx, _) = match transcript::<S>(&run.pp, c, &run.point, &p0.opening.v, &p0.well_formedness, &run.pre) {
        Some(x) => x,
        None => return,
    };
    if idx.len() < 2 || idx.iter().all(|q| *q == idx[0]) || p0.opening.columns.len() != idx.len() || p0.opening.paths.len() != idx.len() {
        return;
    }
    let mut proof = run.proof.clone();
    for j in 1..idx.len() {
        proof[0].opening.columns[j] = p0.opening.columns[0].clone();
        proof[0].opening.paths[j] = p0.opening.paths[0].clone();
    }
    let out = decide::<S>(ctx, &cid, &run.pp, &run.comms, &run.point, &run.values, &proof, &run.pre);
    if out.accepted() {
        ctx.rep.expect_fail(&cid, &format!("lincode/unauthenticated-column-accepted/{}/one-position-repeated", S::NAME),
            &format!("a proof whose {} slots all carry the column and path of ONE position was accepted", idx.len()),
            replay::<S>(&cid, ctx.seed, spec, &describe(run)));
    }
    ctx.rep.count(&format!("{}/all-slots-from-first", S::NAME));
    ctx.rep.case(&format!("{} all slots from the first -> {:?}", describe(run), out), Some(format!("{}/all-from-first/{:?}/{}", S::NAME, spec.sizes, spec.kind)));
}

/// Positions are sampled with replacement, so a position may be opened in several slots of one proof.  EVERY
/// slot must be authenticated: the columns sitting in slots whose position already occurred earlier are moved
/// by a vector orthogonal to the public test vectors (`b`, and the well-formedness challenge `r`), so that
/// only the Merkle path can tell; the proof must not be accepted.
fn repeated_slot_tamper<S: Lc>(ctx: &mut Ctx, id: &str, spec: &Spec, run: &Run<S>) {
    let cid = format!("{}/repeated-slot-tamper", id);
    let c = &run.comms[0];
    let p0 = &run.proof[0];
    let (n, m) = (c.metadata.n_rows, c.metadata.n_cols);
    let wf = run.pp.check_well_formedness();
    let (_a, b) = match tensor::<S>(&run.point, m, n) {
        Ok(x) => x,
        Err(_) => return,
    };
    let (r, idx, _) = match transcript::<S>(&run.pp, c, &run.point, &p0.opening.v, &p0.well_formedness, &run.pre) {
        Some(x) => x,
        None => return,
    };
    let mut delta = vec![Fr::zero(); n];
    if wf {
        if n < 3 || r.len() < 3 {
            ctx.rep.count(&format!("{}/repeated-slot-skipped-few-rows", S::NAME));
            return;
        }
        delta[0] = b[1] * r[2] - b[2] * r[1];
        delta[1] = b[2] * r[0] - b[0] * r[2];
        delta[2] = b[0] * r[1] - b[1] * r[0];
    } else {
        if n < 2 {
            ctx.rep.count(&format!("{}/repeated-slot-skipped-few-rows", S::NAME));
            return;
        }
        delta[0] = b[1];
        delta[1] = -b[0];
    }
    if delta.iter().all(|x| x.is_zero()) || !inner(&b, &delta).is_zero() || (wf && !inner(&r, &delta).is_zero()) {
        return;
    }
    let mut seen = std::collections::BTreeSet::new();
    let repeated: Vec<usize> = (0..idx.len().min(p0.opening.columns.len())).filter(|&j| !seen.insert(idx[j])).collect();
    if repeated.is_empty() {
        ctx.rep.count(&format!("{}/repeated-slot-none", S::NAME));
        return;
    }
    let mut proof = run.proof.clone();
    for &j in &repeated {
        for (x, d) in proof[0].opening.columns[j].iter_mut().zip(&delta) {
            *x += *d;
        }
    }
    let out = decide::<S>(ctx, &cid, &run.pp, &run.comms, &run.point, &run.values, &proof, &run.pre);
    if out.accepted() {
        ctx.rep.expect_fail(&cid, &format!("lincode/unauthenticated-column-accepted/{}/repeated-position", S::NAME),
            &format!("a proof in which {} of the {} opened columns (those at positions already opened in an earlier slot) are not columns of the committed matrix was accepted", repeated.len(), idx.len()),
            replay::<S>(&cid, ctx.seed, spec, &describe(run)));
    }
    ctx.rep.count(&format!("{}/repeated-slot-tamper", S::NAME));
    ctx.rep.case(&format!("{} repeated-slot tamper: {} of {} slots, wf={}", describe(run), repeated.len(), idx.len(), wf), Some(format!("{}/repeated-slot/{:?}/{}", S::NAME, spec.sizes, spec.wf)));
}

/// D5: with the bool of `Path::verify` dropped, a prover who knows the commitment's columns can prove
/// any value: change `v`, fabricate columns that satisfy the inner-product tests against `E(v')` (and
/// the honest well-formedness vector), attach the honest paths of those positions.
fn d5_forgery<S: Lc>(ctx: &mut Ctx, id: &str, rng: &mut Rng, spec: &Spec, run: &Run<S>) {
    let cid = format!("{}/d5-forgery", id);
    let c = &run.comms[0];
    let st = &run.states[0];
    let p0 = &run.proof[0];
    let (n, m) = (c.metadata.n_rows, c.metadata.n_cols);
    let wf = run.pp.check_well_formedness();
    let (a, b) = match tensor::<S>(&run.point, m, n) {
        Ok(x) => x,
        Err(_) => return,
    };
    let mut v2 = p0.opening.v.clone();
    if v2.is_empty() {
        return;
    }
    v2[0] += rand_nonzero(rng);
    let value2 = inner(&v2, &a);
    let (r, idx, _) = match transcript::<S>(&run.pp, c, &run.point, &v2, &p0.well_formedness, &run.pre) {
        Some(x) => x,
        None => return,
    };
    let w2 = match encode::<S>(&run.pp, &v2) {
        Some(w) => w,
        None => return,
    };
    // direction that changes <b, col> but not <r, col>
    let mut u = vec![Fr::zero(); n];
    if wf {
        if n < 2 {
            ctx.rep.count(&format!("{}/d5-forgery-skipped-one-row", S::NAME));
            return;
        }
        u[0] = r[1];
        u[1] = -r[0];
    } else {
        u[0] = one();
    }
    let bu = inner(&b, &u);
    if bu.is_zero() {
        return;
    }
    let tree = tree_of(&st.leaves);
    let mut cols = vec![];
    let mut paths = vec![];
    for q in &idx {
        let col: Vec<Fr> = (0..n).map(|i| st.ext_mat.entries[i][*q]).collect();
        let alpha = (w2[*q] - inner(&b, &col)) * bu.inverse().unwrap();
        cols.push(col.iter().zip(&u).map(|(x, y)| *x + alpha * *y).collect::<Vec<Fr>>());
        paths.push(tree.generate_proof(*q).unwrap());
    }
    let mut proof = run.proof.clone();
    proof[0] = MProof { opening: MProofSingle { paths, v: v2.clone(), columns: cols.clone() }, well_formedness: p0.well_formedness.clone() };
    let mut vals = run.values.clone();
    vals[0] = value2;
    // everything the pre-fix verifier looked at is consistent: positions, inner products, value
    let wwf = p0.well_formedness.as_ref().and_then(|w| encode::<S>(&run.pp, w));
    let consistent = idx.iter().zip(&cols).all(|(q, col)| inner(&b, col) == w2[*q] && (!wf || wwf.as_ref().map(|ww| inner(&r, col) == ww[*q]).unwrap_or(false)));
    if consistent {
        ctx.rep.count(&format!("{}/d5-forgery-consistent-except-path-verify", S::NAME));
    }
    let out = decide::<S>(ctx, &cid, &run.pp, &run.comms, &run.point, &vals, &proof, &run.pre);
    if out.accepted() && value2 != run.values[0] {
        ctx.rep.expect_fail(&cid, &format!("lincode/bad-path-accepted/{}/forgery", S::NAME), "fabricated columns with paths that do not authenticate them proved a false value", replay::<S>(&cid, ctx.seed, spec, &describe(run)));
    }
    ctx.rep.case(&format!("{} D5 forgery", describe(run)), Some(format!("{}/d5/{:?}/{}", S::NAME, spec.sizes, spec.wf)));
}

/// D6: `v'[2i] = v[i], v'[2i+1] = 0` (same for the well-formedness vector) encodes over the doubled
/// FFT domain to the same column entries; columns and *valid* paths for the re-derived positions;
/// claimed value `<v'[..n_cols], a>`.
fn d6_forgery<S: Lc>(ctx: &mut Ctx, id: &str, _rng: &mut Rng, spec: &Spec, run: &Run<S>) {
    let cid = format!("{}/d6-forgery", id);
    let c = &run.comms[0];
    let st = &run.states[0];
    let p0 = &run.proof[0];
    let (n, m) = (c.metadata.n_rows, c.metadata.n_cols);
    let wf = run.pp.check_well_formedness();
    let (a, b) = match tensor::<S>(&run.point, m, n) {
        Ok(x) => x,
        Err(_) => return,
    };
    let stretch = |v: &Vec<Fr>| -> Vec<Fr> { v.iter().flat_map(|x| [*x, Fr::zero()]).collect() };
    let v2 = stretch(&p0.opening.v);
    let wf2 = p0.well_formedness.as_ref().map(stretch);
    // sanity of the transcript replica: on the honest vectors it reproduces the honest positions
    match transcript::<S>(&run.pp, c, &run.point, &p0.opening.v, &p0.well_formedness, &run.pre) {
        Some((_, idx0, _)) if idx0 == p0.opening.paths.iter().map(|q| q.leaf_index).collect::<Vec<_>>() => {}
        _ => {
            ctx.rep.notes.push(format!("{}: transcript replica does not reproduce the honest positions", cid));
            return;
        }
    }
    let (r, idx, _) = match transcript::<S>(&run.pp, c, &run.point, &v2, &wf2, &run.pre) {
        Some(x) => x,
        None => return,
    };
    let tree = tree_of(&st.leaves);
    let cols: Vec<Vec<Fr>> = idx.iter().map(|q| (0..n).map(|i| st.ext_mat.entries[i][*q]).collect()).collect();
    let paths: Vec<_> = idx.iter().map(|q| tree.generate_proof(*q).unwrap()).collect();
    let value2 = inner(&v2[..m.min(v2.len())], &a);
    let mut proof = run.proof.clone();
    proof[0] = MProof { opening: MProofSingle { paths: paths.clone(), v: v2.clone(), columns: cols.clone() }, well_formedness: wf2.clone() };
    let mut vals = run.values.clone();
    vals[0] = value2;
    // every test of the verifier other than the two length tests passes on this proof
    let ev = encode::<S>(&run.pp, &v2);
    let ewf = wf2.as_ref().and_then(|w| encode::<S>(&run.pp, w));
    let passes = match &ev {
        Some(ev) => idx.iter().zip(&cols).zip(&paths).all(|((q, col), path)| {
            *q < ev.len()
                && inner(&b, col) == ev[*q]
                && (!wf || ewf.as_ref().map(|e| *q < e.len() && inner(&r, col) == e[*q]).unwrap_or(false))
                && path.leaf_index == *q
                && path.verify(&(), &(), &c.root, col_hash(col)).unwrap_or(false)
        }),
        None => false,
    };
    if passes {
        ctx.rep.count(&format!("{}/d6-forgery-passes-every-test-but-length", S::NAME));
    } else {
        ctx.rep.count(&format!("{}/d6-forgery-not-consistent", S::NAME));
    }
    let out = decide::<S>(ctx, &cid, &run.pp, &run.comms, &run.point, &vals, &proof, &run.pre);
    if value2 != run.values[0] {
        ctx.rep.count(&format!("{}/d6-forgery-false-claim", S::NAME));
    }
    if out.accepted() && value2 != run.values[0] {
        ctx.rep.expect_fail(&cid, &format!("lincode/stretched-v-accepted/{}", S::NAME), "a vector of length 2*n_cols with valid columns and paths proved a false value", replay::<S>(&cid, ctx.seed, spec, &describe(run)));
    }
    if out.accepted() && !v2.is_empty() && m > 0 {
        ctx.rep.expect_fail(&cid, &format!("lincode/stretched-v-accepted/{}/any", S::NAME), "an opening vector of length 2*n_cols was accepted", replay::<S>(&cid, ctx.seed, spec, &describe(run)));
    }
    ctx.rep.case(&format!("{} D6 forgery", describe(run)), Some(format!("{}/d6/{:?}/{}", S::NAME, spec.sizes, spec.wf)));
}

// ------------------------------------------------------------------------------------------------
// C08
// ------------------------------------------------------------------------------------------------

fn c08<S: Lc>(ctx: &mut Ctx, id: &str, rng: &mut Rng, spec: &Spec) {
    let c = match new_case::<S>(ctx, id, rng, spec) {
        Some(c) => c,
        None => return,
    };
    let run = &c.run;
    for (i, cm) in run.comms.iter().enumerate() {
        let vec = S::L::poly_to_vec(run.polys[i].polynomial());
        match own_ext_columns::<S>(&run.pp, &vec) {
            Some((n, m, cols)) => {
                let leaves: Vec<Vec<u8>> = cols.iter().map(|c| own_col_hash(c)).collect();
                let root = own_merkle_root(&leaves);
                if (n, m, cols.len()) != (cm.metadata.n_rows, cm.metadata.n_cols, cm.metadata.n_ext_cols) {
                    ctx.rep.expect_fail(id, &format!("{}/metadata-not-the-matrix-shape", S::NAME), "commitment metadata differ from (n, m, codeword length)", replay::<S>(id, ctx.seed, spec, &describe(run)));
                }
                if root != cm.root {
                    ctx.rep.expect_fail(id, &format!("{}/root-not-merkle-root-of-column-hashes", S::NAME), "commitment root differs from the independently recomputed Merkle root", replay::<S>(id, ctx.seed, spec, &describe(run)));
                }
                if leaves != run.states[i].leaves {
                    ctx.rep.expect_fail(id, &format!("{}/leaves-not-column-hashes", S::NAME), "state leaves differ from the column hashes of the encoded matrix", replay::<S>(id, ctx.seed, spec, &describe(run)));
                }
            }
            None => ctx.rep.expect_fail(id, &format!("{}/encode-refused-a-row", S::NAME), "public encode refused a row of the coefficient matrix", replay::<S>(id, ctx.seed, spec, &describe(run))),
        }
    }
    // a function of (polynomial, parameters) only: a second commit (other sponge, other order of
    // calls) gives the same commitments; another polynomial gives another root
    if let Ok(again) = honest::<S>(&run.pp, &run.vecs, &run.point, &seeded_sponge(rng)) {
        if again.comms != run.comms {
            ctx.rep.expect_fail(id, &format!("{}/commit-not-deterministic", S::NAME), "two commits to the same polynomial differ", replay::<S>(id, ctx.seed, spec, &describe(run)));
        }
    }
    if let Some(o) = other_run::<S>(rng, run, spec) {
        for i in 0..run.comms.len() {
            let same_poly = S::L::poly_to_vec(o.polys[i].polynomial()) == S::L::poly_to_vec(run.polys[i].polynomial());
            if !same_poly && o.comms[i].root == run.comms[i].root {
                ctx.rep.expect_fail(id, &format!("{}/distinct-polynomials-same-root", S::NAME), "two different polynomials of the same shape have the same root", replay::<S>(id, ctx.seed, spec, &describe(run)));
            }
        }
    }
    // the model's columns for the committed matrix (open_alg with every position) are the state's
    ask_open::<S>(ctx, id, run);
    ctx.rep.case(&describe(run), Some(format!("{}/{:?}/{}/{}", S::NAME, spec.sizes, spec.sec, spec.kind)));
}

// ------------------------------------------------------------------------------------------------
// C10: single-fault neighbourhood, decisions equal the model's
// ------------------------------------------------------------------------------------------------

fn c10<S: Lc>(ctx: &mut Ctx, id: &str, rng: &mut Rng, spec: &Spec) {
    let c = match new_case::<S>(ctx, id, rng, spec) {
        Some(c) => c,
        None => return,
    };
    let run = &c.run;
    let other = other_run::<S>(rng, run, spec);
    let np = run.proof.len();
    let out = decide::<S>(ctx, &format!("{}/honest", id), &run.pp, &run.comms, &run.point, &run.values, &run.proof, &run.pre);
    if !out.accepted() {
        ctx.rep.expect_fail(id, &format!("{}/honest-rejected", S::NAME), "honest proof not accepted", replay::<S>(id, ctx.seed, spec, &describe(run)));
    }
    // the two column tests are separate relations of the published check
    merged_equations_forgery::<S>(ctx, id, rng, spec, run);
    // statement components
    let k = range(rng, 0, np - 1);
    {
        let mut vals = run.values.clone();
        vals[k] = Fr::rand(rng);
        let cid = format!("{}/value", id);
        let out = decide::<S>(ctx, &cid, &run.pp, &run.comms, &run.point, &vals, &run.proof, &run.pre);
        false_accept::<S>(ctx, &cid, spec, "false-claim-accepted/value", "random value accepted", &out, vals != run.values);
    }
    {
        let mut pt = run.point.clone();
        let i = range(rng, 0, pt.len() - 1);
        pt[i] = Fr::rand(rng);
        let _ = decide::<S>(ctx, &format!("{}/point", id), &run.pp, &run.comms, &pt, &run.values, &run.proof, &run.pre);
    }
    {
        let mut cs = run.comms.clone();
        flip(&mut cs[k].root);
        let cid = format!("{}/root", id);
        let out = decide::<S>(ctx, &cid, &run.pp, &cs, &run.point, &run.values, &run.proof, &run.pre);
        if out.accepted() && !run.proof[k].opening.columns.is_empty() {
            ctx.rep.expect_fail(&cid, &format!("lincode/other-root-accepted/{}", S::NAME), "proof accepted against a changed root", replay::<S>(&cid, ctx.seed, spec, &describe(run)));
        }
    }
    for (name, f) in [
        ("nrows+1", (|m: &mut MMetadata| m.n_rows += 1) as fn(&mut MMetadata)),
        ("nrows-1", |m: &mut MMetadata| m.n_rows = m.n_rows.saturating_sub(1)),
        ("ncols+1", |m: &mut MMetadata| m.n_cols += 1),
        ("ncols-1", |m: &mut MMetadata| m.n_cols = m.n_cols.saturating_sub(1)),
        ("next*2", |m: &mut MMetadata| m.n_ext_cols *= 2),
        ("next/2", |m: &mut MMetadata| m.n_ext_cols /= 2),
    ] {
        let mut cs = run.comms.clone();
        f(&mut cs[k].metadata);
        if cs[k].metadata.n_ext_cols == 0 || cs[k].metadata.n_cols == 0 {
            continue;
        }
        let _ = decide::<S>(ctx, &format!("{}/meta-{}", id, name), &run.pp, &cs, &run.point, &run.values, &run.proof, &run.pre);
    }
    // proof components
    for m in ENTRIES.iter().chain(PATHS).chain(SHAPE) {
        let k = range(rng, 0, np - 1);
        let proof = match mutate::<S>(rng, run, other.as_ref(), k, *m) {
            Some(p) => p,
            None => continue,
        };
        let cid = format!("{}/{:?}", id, m);
        let out = decide::<S>(ctx, &cid, &run.pp, &run.comms, &run.point, &run.values, &proof, &run.pre);
        if out.accepted() && !harmless(*m) {
            ctx.rep.expect_fail(&cid, &format!("lincode/single-fault-accepted/{}/{:?}", S::NAME, m), "a proof with one changed component was accepted", replay::<S>(&cid, ctx.seed, spec, &describe(run)));
        }
    }
    metadata_tamper::<S>(ctx, id, rng, spec, run);
    // fewer values than commitments: only the zipped positions are examined
    if np > 1 {
        let vals: Vec<Fr> = run.values[..np - 1].to_vec();
        let _ = decide::<S>(ctx, &format!("{}/values-fewer", id), &run.pp, &run.comms, &run.point, &vals, &run.proof, &run.pre);
    }
    ctx.rep.case(&describe(run), Some(format!("{}/{:?}/{}/{}", S::NAME, spec.sizes, spec.wf, spec.sec)));
}

// ------------------------------------------------------------------------------------------------
// C19: shapes and serialized sizes
// ------------------------------------------------------------------------------------------------

fn c19<S: Lc>(ctx: &mut Ctx, id: &str, rng: &mut Rng, spec: &Spec) {
    let c = match new_case::<S>(ctx, id, rng, spec) {
        Some(c) => c,
        None => return,
    };
    let run = &c.run;
    const FE: usize = 32; // compressed field element
    const DIG: usize = 8 + 32; // length-prefixed 32-byte digest
    let mut total = 8usize;
    for (i, (cm, p)) in run.comms.iter().zip(&run.proof).enumerate() {
        let (n, m, k) = (cm.metadata.n_rows, cm.metadata.n_cols, cm.metadata.n_ext_cols);
        let t = match calc_t::<S>(&run.pp, k) {
            Some(t) => t,
            None => continue,
        };
        let depth = k.next_power_of_two().trailing_zeros() as usize;
        let mut bad = vec![];
        if p.opening.columns.len() != t {
            bad.push(format!("columns {} != t {}", p.opening.columns.len(), t));
        }
        if p.opening.paths.len() != t {
            bad.push(format!("paths {} != t {}", p.opening.paths.len(), t));
        }
        if p.opening.v.len() != m {
            bad.push(format!("v {} != n_cols {}", p.opening.v.len(), m));
        }
        if p.opening.columns.iter().any(|c| c.len() != n) {
            bad.push("a column is not n_rows long".to_string());
        }
        if p.opening.paths.iter().any(|q| q.auth_path.len() + 1 != depth) {
            bad.push(format!("a path is not {} deep", depth));
        }
        match (&p.well_formedness, run.pp.check_well_formedness()) {
            (Some(w), true) if w.len() == m => {}
            (None, false) => {}
            _ => bad.push("well-formedness vector absent / present / of the wrong length".to_string()),
        }
        if !bad.is_empty() {
            ctx.rep.expect_fail(id, &format!("{}/proof-shape", S::NAME), &format!("polynomial {}: {}", i, bad.join("; ")), replay::<S>(id, ctx.seed, spec, &describe(run)));
        }
        // the model's size function: shape × primitive sizes
        // a path: leaf sibling (the padding leaf is the empty byte string: no digest bytes), the
        // inner siblings, the position
        let paths_bytes: usize = p
            .opening
            .paths
            .iter()
            .map(|q| (if (q.leaf_index ^ 1) < k { DIG } else { 8 }) + 8 + (depth - 1) * DIG + 8)
            .sum();
        let single = (8 + paths_bytes) + (8 + m * FE) + (8 + t * (8 + n * FE));
        let wfsz = if run.pp.check_well_formedness() { 1 + 8 + m * FE } else { 1 };
        total += single + wfsz;
        let csize = conv::<MComm, Comm<S>>(cm).serialized_size(Compress::Yes);
        if csize != 3 * 8 + DIG {
            ctx.rep.expect_fail(id, &format!("{}/commitment-size", S::NAME), &format!("commitment has {} bytes, expected {}", csize, 3 * 8 + DIG), replay::<S>(id, ctx.seed, spec, &describe(run)));
        }
        ctx.rep.count(&format!("{}/t-{}", S::NAME, if t == k { "all-columns" } else { "proper-subset" }));
    }
    let real: RealProof = run.proof.iter().map(|p| conv(p)).collect();
    let measured = real.serialized_size(Compress::Yes);
    if measured != total {
        ctx.rep.expect_fail(id, &format!("{}/proof-size", S::NAME), &format!("proof has {} bytes, the shape gives {}", measured, total), replay::<S>(id, ctx.seed, spec, &describe(run)));
    }
    // the model's shapes (columns, path depths, positions) for the same transcript
    ask_open::<S>(ctx, id, run);
    let _ = rng;
    ctx.rep.case(&format!("{} proof bytes {}", describe(run), measured), Some(format!("{}/{:?}/{}/{}", S::NAME, spec.sizes, spec.wf, spec.sec)));
}

// ------------------------------------------------------------------------------------------------
// probes (only with PCV_LINCODE_PROBE set; they write notes, never verdicts): observations outside
// the properties' quantifiers that were examined while modelling the verifier
// ------------------------------------------------------------------------------------------------

/// multilinear Ligero with zero variables: `compute_dimensions(1) = (2, 1)` but `tensor` returns a
/// one-entry `b`
fn probe_nv0(ctx: &mut Ctx) {
    let mut rng = rng_for(ctx.seed, "probe/nv0", 0);
    let pp = Ml::params(&mut rng, 0, true, 128, 2);
    let r = honest::<Ml>(&pp, &[vec![Fr::from(5u64)]], &[], &LogSponge::fresh());
    ctx.rep.notes.push(format!("probe/nv0: multilinear Ligero, 0 variables, constant 5: {}", match r {
        Ok(run) => format!("commit/open ok, shapes {}", describe(&run)),
        Err(e) => e,
    }));
}

// ------------------------------------------------------------------------------------------------
// tampered commitment metadata (finding fixed by "check validates the codeword length announced by
// the commitment"): the honest root published with another n_ext_cols / n_rows / n_cols
// ------------------------------------------------------------------------------------------------

/// columns and valid paths of the honest tree at the given positions (all `< n_ext_cols` of the tree)
fn reopen(st: &MState, idx: &[usize]) -> Option<(Vec<Vec<Fr>>, Vec<Path<crate::generic::MTConfig>>)> {
    let n = st.ext_mat.entries.len();
    let k = st.ext_mat.m;
    if idx.iter().any(|q| *q >= k) {
        return None;
    }
    let tree = tree_of(&st.leaves);
    let cols = idx.iter().map(|q| (0..n).map(|i| st.ext_mat.entries[i][*q]).collect()).collect();
    let paths = idx.iter().map(|q| tree.generate_proof(*q).ok()).collect::<Option<Vec<_>>>()?;
    Some((cols, paths))
}

fn metadata_tamper<S: Lc>(ctx: &mut Ctx, id: &str, rng: &mut Rng, spec: &Spec, run: &Run<S>) {
    let c0 = &run.comms[0];
    let st = &run.states[0];
    let p0 = &run.proof[0];
    let (n, m, k) = (c0.metadata.n_rows, c0.metadata.n_cols, c0.metadata.n_ext_cols);
    let (a, _b) = match tensor::<S>(&run.point, m, n) {
        Ok(x) => x,
        Err(_) => return,
    };
    let refuse = |ctx: &mut Ctx, cid: &str, what: &str, out: &Out| {
        if out.accepted() {
            ctx.rep.expect_fail(cid, &format!("lincode/metadata-tamper-accepted/{}/{}", S::NAME, what), "an opening was accepted for a commitment that publishes the honest root with tampered metadata", replay::<S>(cid, ctx.seed, spec, &describe(run)));
        }
    };
    for (tag, k2) in [("2", 2usize), ("half", k / 2), ("double", 2 * k)] {
        if k2 == k || k2 == 0 {
            continue;
        }
        let mut comms = run.comms.clone();
        comms[0].metadata.n_ext_cols = k2;
        // (a0) the honest proof as it is
        let cid = format!("{}/meta-next-{}/honest-proof", id, tag);
        let out = decide::<S>(ctx, &cid, &run.pp, &comms, &run.point, &run.values, &run.proof, &run.pre);
        refuse(ctx, &cid, &format!("next-{}/honest-proof", tag), &out);
        // (a) the honest vectors re-opened at the positions the tampered metadata yields
        if let Some((_, idx, _)) = transcript::<S>(&run.pp, &comms[0], &run.point, &p0.opening.v, &p0.well_formedness, &run.pre) {
            let reduced: Vec<usize> = idx.iter().map(|q| q % k).collect();
            if let Some((cols, mut paths)) = reopen(st, &reduced) {
                for (pth, q) in paths.iter_mut().zip(&idx) {
                    pth.leaf_index = *q;
                }
                let mut proof = run.proof.clone();
                proof[0] = MProof { opening: MProofSingle { paths, v: p0.opening.v.clone(), columns: cols }, well_formedness: p0.well_formedness.clone() };
                let cid = format!("{}/meta-next-{}/reopened", id, tag);
                let out = decide::<S>(ctx, &cid, &run.pp, &comms, &run.point, &run.values, &proof, &run.pre);
                refuse(ctx, &cid, &format!("next-{}/reopened", tag), &out);
                ctx.rep.count(&format!("{}/metadata-tamper-next-{}-reopened", S::NAME, tag));
            }
        }
        // (b) a different vector that encodes like v on the positions {0, 1}: for the Reed–Solomon
        // encoders v + d*(X-1)(X-w), for Brakedown v + d*e_2 (systematic part) or v + d*(X-1)(X-2)
        if k2 == 2 && m >= 3 {
            let delta = rand_nonzero(rng);
            let mut v2 = p0.opening.v.clone();
            if S::NAME == Bd::NAME && m >= 30 {
                // recursive case: the codeword starts with the message itself
                v2[2] += delta;
            } else if S::NAME == Bd::NAME {
                // base case: evaluations at 1, 2, ...: (X-1)(X-2) vanishes on positions 0, 1
                v2[0] += delta * Fr::from(2u64);
                v2[1] -= delta * Fr::from(3u64);
                v2[2] += delta;
            } else {
                use ark_poly::{EvaluationDomain, GeneralEvaluationDomain};
                let w = match GeneralEvaluationDomain::<Fr>::new(k) {
                    Some(d) => d.element(1),
                    None => continue,
                };
                v2[0] += delta * w;
                v2[1] -= delta * (one() + w);
                v2[2] += delta;
            }
            let value2 = inner(&v2, &a);
            if let Some((_, idx, _)) = transcript::<S>(&run.pp, &comms[0], &run.point, &v2, &p0.well_formedness, &run.pre) {
                if let Some((cols, paths)) = reopen(st, &idx) {
                    // the forged vector is consistent with the opened columns
                    let ev = encode::<S>(&run.pp, &v2);
                    let (_, b) = tensor::<S>(&run.point, m, n).unwrap();
                    let consistent = ev.as_ref().map(|e| idx.iter().zip(&cols).all(|(q, col)| inner(&b, col) == e[*q])).unwrap_or(false);
                    if consistent {
                        ctx.rep.count(&format!("{}/metadata-forgery-consistent-with-opened-columns", S::NAME));
                    }
                    let mut proof = run.proof.clone();
                    proof[0] = MProof { opening: MProofSingle { paths, v: v2, columns: cols }, well_formedness: p0.well_formedness.clone() };
                    let mut vals = run.values.clone();
                    vals[0] = value2;
                    let cid = format!("{}/meta-next-2/forged", id);
                    let out = decide::<S>(ctx, &cid, &run.pp, &comms, &run.point, &vals, &proof, &run.pre);
                    refuse(ctx, &cid, "next-2/forged", &out);
                    if value2 != run.values[0] {
                        ctx.rep.count(&format!("{}/metadata-forgery-false-claim", S::NAME));
                    }
                }
            }
        }
        ctx.rep.case(&format!("{} tampered n_ext_cols {} -> {}", describe(run), k, k2), Some(format!("{}/meta-next/{}/{:?}/{}", S::NAME, tag, spec.sizes, spec.wf)));
    }
    // tampered n_rows / n_cols with a false value
    for (tag, f) in [
        ("nrows+1", (|m: &mut MMetadata| m.n_rows += 1) as fn(&mut MMetadata)),
        ("nrows-1", |m: &mut MMetadata| m.n_rows = m.n_rows.saturating_sub(1)),
        ("nrows*2", |m: &mut MMetadata| m.n_rows *= 2),
        ("ncols+1", |m: &mut MMetadata| m.n_cols += 1),
        ("ncols-1", |m: &mut MMetadata| m.n_cols = m.n_cols.saturating_sub(1)),
        ("ncols*2", |m: &mut MMetadata| m.n_cols *= 2),
    ] {
        let mut comms = run.comms.clone();
        f(&mut comms[0].metadata);
        if comms[0].metadata == c0.metadata {
            continue;
        }
        let mut vals = run.values.clone();
        vals[0] += rand_nonzero(rng);
        let cid = format!("{}/meta-{}/false-value", id, tag);
        let out = decide::<S>(ctx, &cid, &run.pp, &comms, &run.point, &vals, &run.proof, &run.pre);
        refuse(ctx, &cid, &format!("{}/false-value", tag), &out);
        let cid = format!("{}/meta-{}/true-value", id, tag);
        let _ = decide::<S>(ctx, &cid, &run.pp, &comms, &run.point, &run.values, &run.proof, &run.pre);
        ctx.rep.case(&format!("{} tampered {}", describe(run), tag), Some(format!("{}/meta/{}/{:?}/{}", S::NAME, tag, spec.sizes, spec.wf)));
    }
}

fn c17_points<S: Lc>(ctx: &mut Ctx, id: &str, rng: &mut Rng, spec: &Spec) {
    if S::KIND != 1 {
        return;
    }
    let c = match new_case::<S>(ctx, id, rng, spec) {
        Some(c) => c,
        None => return,
    };
    wrong_point_length_forgery::<S>(ctx, id, rng, spec, &c.run);
}

/// D23: the multilinear verifiers never compared the point with the committed matrix, and their inner products
/// truncate to the shorter operand.  For a point with one coordinate more or fewer than the polynomial has
/// variables, `v' = Σ_{i<k} b'[i]·row_i` (`b'` the row tensor of that point, `k = min(|b'|, n_rows)`), honest
/// columns and paths at the positions of the new transcript, and the claimed value `<v', a'>` satisfy every
/// test the old verifier made.  A request with the wrong number of variables must never verify.
fn wrong_point_length_forgery<S: Lc>(ctx: &mut Ctx, id: &str, rng: &mut Rng, spec: &Spec, run: &Run<S>) {
    if S::KIND != 1 {
        return;
    }
    let c = &run.comms[0];
    let st = &run.states[0];
    let p0 = &run.proof[0];
    let (n, m) = (c.metadata.n_rows, c.metadata.n_cols);
    for longer in [true, false] {
        let cid = format!("{}/wrong-point-length-{}", id, if longer { "longer" } else { "shorter" });
        let mut pt = run.point.clone();
        if longer {
            pt.push(Fr::rand(rng));
        } else {
            if pt.len() < 2 {
                continue;
            }
            pt.pop();
        }
        let (a2, b2) = match tensor::<S>(&pt, m, n) {
            Ok(x) => x,
            Err(_) => {
                ctx.rep.count(&format!("{}/wrong-point-length-tensor-aborts", S::NAME));
                continue;
            }
        };
        let k = b2.len().min(n);
        let mut v2 = vec![Fr::zero(); m];
        for i in 0..k {
            for j in 0..m {
                v2[j] += b2[i] * st.mat.entries[i][j];
            }
        }
        let value2: Fr = v2.iter().zip(&a2).map(|(x, y)| *x * *y).sum();
        let (_r, idx, _) = match transcript::<S>(&run.pp, c, &pt, &v2, &p0.well_formedness, &run.pre) {
            Some(x) => x,
            None => continue,
        };
        let tree = tree_of(&st.leaves);
        let mut cols = vec![];
        let mut paths = vec![];
        let mut ok = true;
        for q in &idx {
            if *q >= c.metadata.n_ext_cols {
                ok = false;
                break;
            }
            cols.push((0..n).map(|i| st.ext_mat.entries[i][*q]).collect::<Vec<Fr>>());
            match tree.generate_proof(*q) {
                Ok(p) => paths.push(p),
                Err(_) => {
                    ok = false;
                    break;
                }
            }
        }
        if !ok {
            continue;
        }
        let proof = vec![MProof { opening: MProofSingle { paths, v: v2.clone(), columns: cols }, well_formedness: p0.well_formedness.clone() }];
        let out = decide::<S>(ctx, &cid, &run.pp, &run.comms[..1], &pt, &[value2], &proof, &run.pre);
        if out.accepted() {
            ctx.rep.expect_fail(&cid, &format!("lincode/wrong-point-length-accepted/{}", S::NAME),
                &format!("a proof assembled from honest openings verified at a point with {} coordinates against a commitment to a polynomial in {} variables", pt.len(), run.point.len()),
                replay::<S>(&cid, ctx.seed, spec, &describe(run)));
        }
        ctx.rep.count(&format!("{}/wrong-point-length", S::NAME));
        ctx.rep.case(&format!("{} wrong point length {} -> {:?}", describe(run), pt.len(), out), Some(format!("{}/wrong-point-length/{:?}/{}/{}", S::NAME, spec.sizes, spec.wf, longer)));
    }
}

/// The two per-position tests `<r, col_q> = E(v_wf)[q]` and `<b, col_q> = E(v)[q]` must hold SEPARATELY.  With
/// `v' = v + d` and `v_wf' = v_wf - d` (honest columns and paths at the positions of the new transcript) only their
/// sum still holds, by linearity of the code, and the claimed value `<v', a>` is false.
fn merged_equations_forgery<S: Lc>(ctx: &mut Ctx, id: &str, rng: &mut Rng, spec: &Spec, run: &Run<S>) {
    let cid = format!("{}/merged-equations-forgery", id);
    let c = &run.comms[0];
    let st = &run.states[0];
    let p0 = &run.proof[0];
    let (n, m) = (c.metadata.n_rows, c.metadata.n_cols);
    let wfv = match (&p0.well_formedness, run.pp.check_well_formedness()) {
        (Some(w), true) => w.clone(),
        _ => return,
    };
    let (a, _b) = match tensor::<S>(&run.point, m, n) {
        Ok(x) => x,
        Err(_) => return,
    };
    let delta: Vec<Fr> = (0..m).map(|_| rand_nonzero(rng)).collect();
    let v2: Vec<Fr> = p0.opening.v.iter().zip(&delta).map(|(x, d)| *x + *d).collect();
    let wf2: Vec<Fr> = wfv.iter().zip(&delta).map(|(x, d)| *x - *d).collect();
    if v2.len() != m || wf2.len() != m {
        return;
    }
    let value2 = inner(&v2, &a);
    if value2 == run.values[0] {
        return;
    }
    let (_r, idx, _) = match transcript::<S>(&run.pp, c, &run.point, &v2, &Some(wf2.clone()), &run.pre) {
        Some(x) => x,
        None => return,
    };
    let tree = tree_of(&st.leaves);
    let mut cols = vec![];
    let mut paths = vec![];
    for q in &idx {
        if *q >= c.metadata.n_ext_cols {
            return;
        }
        cols.push((0..n).map(|i| st.ext_mat.entries[i][*q]).collect::<Vec<Fr>>());
        match tree.generate_proof(*q) {
            Ok(p) => paths.push(p),
            Err(_) => return,
        }
    }
    let proof = vec![MProof { opening: MProofSingle { paths, v: v2, columns: cols }, well_formedness: Some(wf2) }];
    let out = decide::<S>(ctx, &cid, &run.pp, &run.comms[..1], &run.point, &[value2], &proof, &run.pre);
    if out.accepted() {
        ctx.rep.expect_fail(&cid, &format!("lincode/false-value-accepted/{}/merged-equations", S::NAME),
            "a false value verified: v and the well-formedness vector were moved in opposite directions, so only the SUM of the two column tests holds",
            replay::<S>(&cid, ctx.seed, spec, &describe(run)));
    }
    ctx.rep.count(&format!("{}/merged-equations-forgery", S::NAME));
    ctx.rep.case(&format!("{} merged-equations forgery -> {:?}", describe(run), out), Some(format!("{}/merged-eq/{:?}", S::NAME, spec.sizes)));
}
